// Package verifc09reg is the scripted fake registry, the case model and the generators shared by the
// harnesses of property C09 (registry client: success means every layer verified; manifest committed
// last). It exists only in the build overlay (/repo/verifc09reg/*.go -> /verif/harness/verifc09reg/*.go)
// and imports nothing from ollama, so that in-package harnesses of server/internal/client/ollama,
// server/internal/registry and server can all use it without an import cycle.
//
//	PullCase --NewReg--> fake registry (http.RoundTripper, gated bodies) --RunPull--> verdict
//	PushCase --NewPushReg--> recording fake registry                      --RunPush--> verdict
//
// Everything here is a pure function of the case: no RNG, no wall clock. RunPull / RunPush must be
// called inside a testing/synctest bubble (they create channels and use synctest.Wait).
package verifc09reg

import (
	"crypto/sha256"
	"encoding/hex"
	"encoding/json"
	"fmt"
	"os"
	"path/filepath"
	"sort"
	"strings"
	"sync"

	"pgregory.net/rapid"
)

// The one name every case pulls / pushes.
const (
	Host  = "example.com"
	NS    = "library"
	Model = "m"
	Tag   = "latest"
	Name  = Host + "/" + NS + "/" + Model + ":" + Tag
)

// Known-finding slugs (see /verif/replays/C09 and the comments at their use).
const (
	// A failed attempt leaves the blob file of a chunked layer at full length with missing or
	// unverified bytes (the chunk holding the last byte completed, another did not); the next
	// attempt's size test calls the layer cached and Pull links it.
	SlugHole = "chunk-hole-trusted-on-retry"
	// The chunk plan streamed by the registry is never checked against the layer: ranges that do
	// not partition [0,size) (shifted / beyond the end) or chunk digests that describe other bytes
	// pass chunk-by-chunk verification and the layer digest is never verified.
	SlugPlan = "chunk-plan-unanchored"
	// A chunk marker ("v1 pull chunksum ...") says a range was fetched and verified; a differently
	// bounded chunk overlapping that range (plan changed between attempts, or overlapping plan) is
	// written to the file before it is verified, fails verification, and leaves corrupt bytes under
	// the marker: a later attempt skips the range.
	SlugStale = "chunk-marker-stale-after-overlapping-write"
	// DiskCache.Link copies the manifest over the link file with copyNamedFile, whose "a file of the
	// right size is good enough" shortcut is only valid for content-addressed names: an updated
	// manifest of the same byte length as the linked one is never written; Pull reports success and
	// the name still resolves to the old manifest.
	SlugLink = "link-same-size-manifest-not-updated"
	// Registry.Push uploads m.Layers only: the config blob of a manifest that has one (every
	// manifest pulled from a registry) is never offered to the registry before the manifest PUT.
	SlugPushConfig = "push-skips-config-blob"
)

// ---------------------------------------------------------------------------------------- case

type LayerSpec struct {
	Size int    `json:"size"`
	Seed uint32 `json:"seed"`
}

// Plan is the chunk list the registry streams for one chunked layer.
type Plan struct {
	Cuts []int `json:"cuts,omitempty"` // raw cut points, normalised into (0,size), sorted, distinct, at most 5
	// Broken: "" honest | gap | overlap | shift | overrun | baddigest | lie | cutlist | cutmid |
	// garbage | badrange | streamerr
	Broken string `json:"broken,omitempty"`
	At     int    `json:"at,omitempty"` // affected entry / number of entries kept (mod)
	D      int    `json:"d,omitempty"`  // amount for overlap / shift / overrun (mod)
	// GateAt > 0: the chunk list body is withheld before line (GateAt-1) mod (n+1) until released
	// (n = after the last line, before EOF).
	GateAt int `json:"gate_at,omitempty"`
}

// Fault is addressed by request identity (deterministic under concurrency), not by arrival order.
type Fault struct {
	Kind  string `json:"kind"`            // manifest | sums | blob
	Layer int    `json:"layer,omitempty"` // position in the served manifest's layer list (mod)
	Chunk int    `json:"chunk,omitempty"` // ordinal in the served chunk list (mod); blob only
	// Type: s500 s503 s404 s403 neterr neterr2 | short reset flip (bodies) | garbage nolayers (manifest)
	Type string `json:"type"`
	At   int    `json:"at,omitempty"` // byte offset for short / reset / flip (mod)
}

// Act is an intent of the harness at a quiescent point with at least one withheld body.
type Act struct {
	Op string `json:"op"`          // rel | cancel | stall
	K  int    `json:"k,omitempty"` // rel: index into the sorted list of withheld bodies (mod)
}

// Attempt scripts one call of Registry.Pull (identified by its manifest request).
type Attempt struct {
	Version int     `json:"version,omitempty"` // 0 first manifest, 1 updated manifest (if the case has one)
	Replan  []Plan  `json:"replan,omitempty"`  // overrides the case's plans for this attempt (cyclic by layer index)
	Faults  []Fault `json:"faults,omitempty"`
	// Splits (cyclic over (layer*5+chunk)): 0 body not withheld, 1 withheld before the first byte,
	// 2 withheld at the middle, 3 withheld before the last byte.
	Splits  []int `json:"splits,omitempty"`
	ReadMax int   `json:"read_max,omitempty"` // max bytes per Read of a blob body (0 = no limit)
	Acts    []Act `json:"acts,omitempty"`
}

type Update struct {
	Drop int         `json:"drop,omitempty"` // bit i set: layer i of the first manifest is not in the updated one
	Add  []LayerSpec `json:"add,omitempty"`
}

type PullCase struct {
	Layers       []LayerSpec `json:"layers"`
	Config       *LayerSpec  `json:"config,omitempty"`
	Update       *Update     `json:"update,omitempty"`
	Plans        []Plan      `json:"plans,omitempty"` // cyclic by global layer index
	Threshold    int         `json:"threshold"`
	MaxStreams   int         `json:"max_streams"`
	ReadTimeoutS int         `json:"read_timeout_s,omitempty"` // 0 = none
	Attempts     []Attempt   `json:"attempts"`
	// Via: "" Registry.Pull | "local" /api/pull non-streaming | "local-stream" /api/pull streaming
	Via string `json:"via,omitempty"`
	// Stutter: the script of the first attempt is played that many more times before the second one (a registry that
	// keeps failing the same way: inside one /api/pull the caller's retry loop then sees up to Stutter+1 equal failures)
	Stutter int `json:"stutter,omitempty"`
}

// --------------------------------------------------------------------------------------- model

type Blob struct {
	Idx  int // global layer index (base layers, then added layers, then config)
	Hex  string
	Data []byte
}

func (b *Blob) Digest() string { return "sha256:" + b.Hex }
func (b *Blob) Size() int      { return len(b.Data) }

type Version struct {
	Layers   []*Blob // manifest order; the config (if any) is last, as Pull appends it
	Config   *Blob
	Manifest []byte
	Hex      string // sha256 of Manifest
}

// Content returns n deterministic bytes, none of them zero (so holes are visible in dumps).
func Content(seed uint32, n int) []byte {
	b := make([]byte, n)
	x := uint64(seed)*0x9E3779B97F4A7C15 + 0x1234567
	for i := range b {
		x ^= x << 13
		x ^= x >> 7
		x ^= x << 17
		b[i] = byte(x>>24) | 1
	}
	return b
}

func HexSum(b []byte) string {
	s := sha256.Sum256(b)
	return hex.EncodeToString(s[:])
}

// BuildBlobs makes the blobs of a list of specs with distinct contents (a manifest never lists the
// same digest twice: assumption recorded in the check).
func BuildBlobs(specs []LayerSpec, seen map[string]bool, firstIdx int) []*Blob {
	var out []*Blob
	for i, s := range specs {
		seed := s.Seed
		var data []byte
		for {
			data = Content(seed, s.Size)
			if s.Size == 0 {
				data = []byte{}
			}
			if !seen[HexSum(data)] {
				break
			}
			if s.Size == 0 { // only one empty blob exists: make it one byte long instead
				s.Size = 1
			}
			seed += 0x9E37
		}
		h := HexSum(data)
		seen[h] = true
		out = append(out, &Blob{Idx: firstIdx + i, Hex: h, Data: data})
	}
	return out
}

func manifestJSON(layers []*Blob, config *Blob, pad bool) []byte {
	var sb strings.Builder
	sb.WriteString(`{"schemaVersion":2,"mediaType":"application/vnd.docker.distribution.manifest.v2+json",`)
	if pad {
		sb.WriteString(`"annotations":{},`)
	}
	if config != nil {
		fmt.Fprintf(&sb, `"config":{"mediaType":"application/vnd.docker.container.image.v1+json","digest":"%s","size":%d},`, config.Digest(), config.Size())
	}
	sb.WriteString(`"layers":[`)
	for i, l := range layers {
		if i > 0 {
			sb.WriteByte(',')
		}
		fmt.Fprintf(&sb, `{"mediaType":"application/vnd.ollama.image.model","digest":"%s","size":%d}`, l.Digest(), l.Size())
	}
	sb.WriteString(`]}`)
	return []byte(sb.String())
}

func newVersion(layers []*Blob, config *Blob, pad bool) *Version {
	v := &Version{Config: config}
	v.Manifest = manifestJSON(layers, config, pad)
	v.Hex = HexSum(v.Manifest)
	v.Layers = append(v.Layers, layers...)
	if config != nil {
		v.Layers = append(v.Layers, config)
	}
	return v
}

// BuildVersions returns the one or two manifests a pull case publishes.
// padSameLength: make the updated manifest differ in length from the first one (exclusion of SlugLink).
func BuildVersions(layers []LayerSpec, config *LayerSpec, up *Update, padSameLength func() bool) []*Version {
	seen := map[string]bool{}
	base := BuildBlobs(layers, seen, 0)
	var cfg *Blob
	if config != nil {
		cfg = BuildBlobs([]LayerSpec{*config}, seen, 100)[0]
	}
	vs := []*Version{newVersion(base, cfg, false)}
	if up != nil {
		var l2 []*Blob
		for i, b := range base {
			if up.Drop>>uint(i)&1 == 0 {
				l2 = append(l2, b)
			}
		}
		l2 = append(l2, BuildBlobs(up.Add, seen, len(base))...)
		if len(l2) == 0 {
			l2 = append(l2, base[0])
		}
		v2 := newVersion(l2, cfg, false)
		if len(v2.Manifest) == len(vs[0].Manifest) && v2.Hex != vs[0].Hex && padSameLength != nil && padSameLength() {
			v2 = newVersion(l2, cfg, true)
		}
		vs = append(vs, v2)
	}
	return vs
}

// Entry is one line of a served chunk list.
type Entry struct {
	Hex        string
	Start, End int
}

func (e Entry) Size() int { return e.End - e.Start + 1 }

// honestEntries is the contiguous cover of [0,size) described by raw cut points.
func honestEntries(b *Blob, cuts []int) []Entry {
	n := b.Size()
	var cs []int
	if n > 1 {
		seen := map[int]bool{}
		for _, c := range cuts {
			if c < 0 {
				c = -c
			}
			c = 1 + c%(n-1)
			if !seen[c] && len(cs) < 5 {
				seen[c] = true
				cs = append(cs, c)
			}
		}
		sort.Ints(cs)
	}
	var out []Entry
	lo := 0
	for _, c := range append(cs, n) {
		out = append(out, Entry{Hex: HexSum(b.Data[lo:c]), Start: lo, End: c - 1})
		lo = c
	}
	return out
}

// rangeBytes is what the (honest) blob store answers to Range: bytes=lo-hi; bytes beyond the end
// of the blob are served as '#' (a store that pads; only reachable through an overrun plan).
func rangeBytes(b *Blob, lo, hi int) []byte {
	if hi < lo {
		return []byte{}
	}
	out := make([]byte, 0, hi-lo+1)
	for i := lo; i <= hi; i++ {
		if i >= 0 && i < len(b.Data) {
			out = append(out, b.Data[i])
		} else {
			out = append(out, '#')
		}
	}
	return out
}

// served is a chunk list as streamed in one attempt.
type served struct {
	entries []Entry
	tail    string            // "" | mid | garbage | badrange | err : what follows the entries
	lies    map[[2]int][]byte // range -> bytes served instead of the blob's (consistent lie)
	gateAt  int               // -1 none, else line index before which the body is withheld
	broken  string            // the kind that actually applied ("" if it degenerated to honest)
}

func mod(a, n int) int {
	if n <= 0 {
		return 0
	}
	a %= n
	if a < 0 {
		a += n
	}
	return a
}

func servePlan(b *Blob, p Plan, honest bool) served {
	ents := honestEntries(b, p.Cuts)
	s := served{gateAt: -1}
	n := len(ents)
	if honest {
		s.entries = ents
		return s
	}
	i := mod(p.At, n)
	d := 1 + mod(p.D, 7)
	switch p.Broken {
	case "gap":
		ents = append(append([]Entry{}, ents[:i]...), ents[i+1:]...)
		s.broken = "gap"
	case "overlap":
		if n >= 2 {
			e := ents[i]
			if i < n-1 {
				e.End = min(e.End+d, b.Size()-1)
			} else {
				e.Start = max(e.Start-d, 0)
			}
			e.Hex = HexSum(rangeBytes(b, e.Start, e.End))
			ents[i] = e
			s.broken = "overlap"
		}
	case "shift":
		// same size, moved left: overlaps the previous bytes, leaves a gap behind it; byte count still adds up
		if n >= 2 {
			if i == 0 {
				i = 1
			}
			e := ents[i]
			d = min(d, e.Start)
			e.Start, e.End = e.Start-d, e.End-d
			e.Hex = HexSum(rangeBytes(b, e.Start, e.End))
			ents[i] = e
			s.broken = "shift"
		}
	case "overrun":
		e := ents[n-1]
		e.End += d
		e.Hex = HexSum(rangeBytes(b, e.Start, e.End))
		ents[n-1] = e
		s.broken = "overrun"
	case "baddigest":
		ents[i].Hex = HexSum(append([]byte("not the chunk"), byte(i)))
		s.broken = "baddigest"
	case "lie":
		e := ents[i]
		bad := rangeBytes(b, e.Start, e.End)
		if len(bad) > 0 {
			bad[mod(p.D, len(bad))] ^= 0xff
			e.Hex = HexSum(bad)
			ents[i] = e
			s.lies = map[[2]int][]byte{{e.Start, e.End}: bad}
			s.broken = "lie"
		}
	case "cutlist":
		ents = ents[:i]
		s.broken = "cutlist"
	case "cutmid", "garbage", "badrange", "streamerr":
		ents = ents[:i]
		s.tail = map[string]string{"cutmid": "mid", "garbage": "garbage", "badrange": "badrange", "streamerr": "err"}[p.Broken]
		s.broken = p.Broken
	}
	s.entries = ents
	if p.GateAt > 0 {
		s.gateAt = mod(p.GateAt-1, len(ents)+1)
	}
	return s
}

// scratchBase: cache directories live on tmpfs when there is one (thousands of small files per second).
var scratchBase = sync.OnceValue(func() string {
	if fi, err := os.Stat("/dev/shm"); err == nil && fi.IsDir() {
		if d, err := os.MkdirTemp("/dev/shm", "c09probe"); err == nil {
			os.Remove(d)
			return "/dev/shm"
		}
	}
	return ""
})

// --------------------------------------------------------------------------------- cache audit

func BlobPath(dir, hexsum string) string { return filepath.Join(dir, "blobs", "sha256-"+hexsum) }

func LinkPath(dir string) string { return filepath.Join(dir, "manifests", Host, NS, Model, Tag) }

// ReadLink returns the bytes the name is linked to (the manifest file), if any.
func ReadLink(dir string) ([]byte, bool) {
	b, err := os.ReadFile(LinkPath(dir))
	if err != nil {
		return nil, false
	}
	return b, true
}

// AuditBlob reads the file itself: size and SHA-256 must be the expected ones.
func AuditBlob(dir, hexsum string, size int64) error {
	b, err := os.ReadFile(BlobPath(dir, hexsum))
	if err != nil {
		return fmt.Errorf("layer sha256:%s… is not in the cache: %v", hexsum[:12], err)
	}
	if int64(len(b)) != size {
		return fmt.Errorf("layer sha256:%s… has %d bytes in the cache, the manifest says %d", hexsum[:12], len(b), size)
	}
	if got := HexSum(b); got != hexsum {
		return fmt.Errorf("layer sha256:%s… (%d bytes) has content with SHA-256 %s… in the cache: %s", hexsum[:12], size, got[:12], describeDamage(b))
	}
	return nil
}

func describeDamage(b []byte) string {
	zeros, first := 0, -1
	for i, c := range b {
		if c == 0 {
			zeros++
			if first < 0 {
				first = i
			}
		}
	}
	if zeros > 0 {
		return fmt.Sprintf("%d zero bytes (never-written hole) from offset %d", zeros, first)
	}
	return "no zero bytes (wrong bytes were written)"
}

type storedManifest struct {
	Layers []*struct {
		Digest string `json:"digest"`
		Size   int64  `json:"size"`
	} `json:"layers"`
	Config *struct {
		Digest string `json:"digest"`
		Size   int64  `json:"size"`
	} `json:"config"`
}

// AuditLinked checks that the manifest the name resolves to describes a complete model: every
// layer (and the config, if it has a digest) present with the stated size and digest.
func AuditLinked(dir string, manifest []byte) error {
	var m storedManifest
	if err := json.Unmarshal(manifest, &m); err != nil {
		return fmt.Errorf("linked manifest does not parse: %v", err)
	}
	if len(m.Layers) == 0 {
		return fmt.Errorf("linked manifest has no layers")
	}
	check := func(d string, size int64) error {
		h := strings.TrimPrefix(d, "sha256:")
		if len(h) != 64 {
			return fmt.Errorf("linked manifest has a malformed digest %q", d)
		}
		return AuditBlob(dir, h, size)
	}
	for _, l := range m.Layers {
		if l == nil {
			return fmt.Errorf("linked manifest has a null layer")
		}
		if err := check(l.Digest, l.Size); err != nil {
			return err
		}
	}
	if m.Config != nil && m.Config.Digest != "" {
		if err := check(m.Config.Digest, m.Config.Size); err != nil {
			return err
		}
	}
	return nil
}

// ----------------------------------------------------------------------------------- generator

var genSizes = []int{1, 5, 31, 63, 64, 65, 80, 100, 128, 129, 200, 257}

func genLayer(t *rapid.T, label string, chunkedBias bool) LayerSpec {
	var size int
	if chunkedBias && rapid.IntRange(0, 3).Draw(t, label+"big") > 0 {
		size = rapid.SampledFrom([]int{64, 65, 80, 100, 128, 129, 200, 257}).Draw(t, label+"size")
	} else {
		size = rapid.SampledFrom(genSizes).Draw(t, label+"size")
	}
	return LayerSpec{Size: size, Seed: uint32(rapid.IntRange(0, 999).Draw(t, label+"seed"))}
}

var genBroken = []string{"gap", "overlap", "shift", "overrun", "baddigest", "lie", "cutlist", "cutmid", "garbage", "badrange", "streamerr"}

func genPlan(t *rapid.T, label string, brokenPct int) Plan {
	var p Plan
	n := rapid.SampledFrom([]int{0, 1, 1, 2, 2, 3, 4, 5}).Draw(t, label+"ncuts")
	for i := 0; i < n; i++ {
		p.Cuts = append(p.Cuts, rapid.IntRange(0, 255).Draw(t, label+"cut"))
	}
	if rapid.IntRange(0, 99).Draw(t, label+"isbroken") < brokenPct {
		p.Broken = rapid.SampledFrom(genBroken).Draw(t, label+"broken")
		p.At = rapid.IntRange(0, 5).Draw(t, label+"at")
		p.D = rapid.IntRange(0, 6).Draw(t, label+"d")
	}
	if rapid.IntRange(0, 9).Draw(t, label+"gated") < 2 {
		p.GateAt = rapid.IntRange(1, 7).Draw(t, label+"gateat")
	}
	return p
}

func genAttempt(t *rapid.T, hasUpdate bool, prevVersion int) Attempt {
	var a Attempt
	if hasUpdate {
		a.Version = prevVersion
		if prevVersion == 0 && rapid.IntRange(0, 2).Draw(t, "switch") == 0 {
			a.Version = 1
		}
	}
	if rapid.IntRange(0, 9).Draw(t, "replan") < 2 {
		n := rapid.IntRange(1, 3).Draw(t, "nreplan")
		for i := 0; i < n; i++ {
			a.Replan = append(a.Replan, genPlan(t, "re", 25))
		}
	}
	nf := rapid.SampledFrom([]int{0, 1, 1, 1, 2, 2, 3}).Draw(t, "nfaults")
	for i := 0; i < nf; i++ {
		var f Fault
		f.Kind = rapid.SampledFrom([]string{"blob", "blob", "blob", "blob", "blob", "blob", "sums", "manifest"}).Draw(t, "fkind")
		f.Layer = rapid.IntRange(0, 4).Draw(t, "flayer")
		switch f.Kind {
		case "blob":
			f.Chunk = rapid.IntRange(0, 5).Draw(t, "fchunk")
			f.Type = rapid.SampledFrom([]string{"s500", "s503", "s404", "s403", "neterr", "neterr2", "short", "reset", "flip", "flip"}).Draw(t, "ftype")
			f.At = rapid.IntRange(0, 255).Draw(t, "fat")
		case "sums":
			f.Type = rapid.SampledFrom([]string{"s500", "s404", "neterr"}).Draw(t, "ftype")
		default:
			f.Type = rapid.SampledFrom([]string{"s500", "s404", "neterr", "garbage", "short", "nolayers"}).Draw(t, "ftype")
		}
		a.Faults = append(a.Faults, f)
	}
	ns := rapid.SampledFrom([]int{0, 1, 2, 3, 4, 6}).Draw(t, "nsplits")
	for i := 0; i < ns; i++ {
		a.Splits = append(a.Splits, rapid.SampledFrom([]int{0, 1, 1, 2, 2, 3}).Draw(t, "split"))
	}
	a.ReadMax = rapid.SampledFrom([]int{0, 0, 0, 1, 3, 16}).Draw(t, "readmax")
	na := rapid.IntRange(0, 10).Draw(t, "nacts")
	for i := 0; i < na; i++ {
		r := rapid.IntRange(0, 19).Draw(t, "actkind")
		switch {
		case r == 0:
			a.Acts = append(a.Acts, Act{Op: "cancel"})
		case r == 1:
			a.Acts = append(a.Acts, Act{Op: "stall"})
		default:
			a.Acts = append(a.Acts, Act{Op: "rel", K: rapid.IntRange(0, 3).Draw(t, "k")})
		}
	}
	return a
}

// GenPull draws a pull case. via selects the entry point the harness drives.
// scripted: the number of attempts the script covers; scriptAt: the script of attempt idx.
func (c *PullCase) scripted() int { return len(c.Attempts) + max(0, min(c.Stutter, 16)) }
func (c *PullCase) scriptAt(idx int) *Attempt {
	st := max(0, min(c.Stutter, 16))
	if idx <= st {
		idx = 0
	} else {
		idx -= st
	}
	return &c.Attempts[idx]
}

func GenPull(t *rapid.T, vias []string) PullCase {
	var c PullCase
	c.Via = rapid.SampledFrom(vias).Draw(t, "via")
	c.Threshold = 64
	nl := rapid.SampledFrom([]int{1, 1, 2, 2, 3, 4}).Draw(t, "nlayers")
	for i := 0; i < nl; i++ {
		c.Layers = append(c.Layers, genLayer(t, "l", true))
	}
	if rapid.IntRange(0, 3).Draw(t, "hasconfig") == 0 {
		l := genLayer(t, "cfg", false)
		c.Config = &l
	}
	if rapid.IntRange(0, 2).Draw(t, "hasupdate") == 0 {
		u := &Update{Drop: rapid.IntRange(0, 15).Draw(t, "drop")}
		na := rapid.IntRange(0, 2).Draw(t, "nadd")
		for i := 0; i < na; i++ {
			u.Add = append(u.Add, genLayer(t, "add", true))
		}
		c.Update = u
	}
	np := rapid.IntRange(1, 4).Draw(t, "nplans")
	for i := 0; i < np; i++ {
		c.Plans = append(c.Plans, genPlan(t, "p", 12))
	}
	c.MaxStreams = rapid.IntRange(1, 4).Draw(t, "maxstreams")
	c.ReadTimeoutS = rapid.SampledFrom([]int{0, 5, 30, 30}).Draw(t, "readtimeout")
	if strings.HasPrefix(c.Via, "local") {
		c.Stutter = rapid.SampledFrom([]int{0, 0, 0, 0, 2, 7, 8, 9, 12}).Draw(t, "stutter")
	}
	na := rapid.IntRange(1, 3).Draw(t, "nattempts")
	ver := 0
	for i := 0; i < na; i++ {
		a := genAttempt(t, c.Update != nil, ver)
		ver = a.Version
		c.Attempts = append(c.Attempts, a)
	}
	return c
}
