package verifc09reg

import (
	"bytes"
	"context"
	"errors"
	"fmt"
	"io"
	"net/http"
	"sort"
	"strconv"
	"strings"
	"sync"
)

// gate withholds the rest of a response body until the harness releases it.
type gate struct {
	key      string
	ch       chan struct{}
	waiting  bool
	released bool
}

// chunkRec is what happened to one blob request of an attempt.
type chunkRec struct {
	layerPos   int
	hex        string
	start, end int
	ordinal    int    // index in the served chunk list (0 for an unchunked layer)
	state      string // open | done | failed
	faulted    bool   // the bytes / status served were not the honest ones
	corrupt    bool   // wrong bytes were handed over (flip)
	seq        int    // completion order
}

type attemptState struct {
	idx     int
	script  *Attempt // nil: fault-free attempt
	version *Version
	served  map[int]served // layer position -> chunk list streamed (once requested)
	chunks  []*chunkRec
	gates   []*gate
	keys    map[string]int
	doneSeq int
	cancels int
	stalls  int
}

// Reg is the scripted fake registry: an http.RoundTripper that answers in-process.
type Reg struct {
	mu       sync.Mutex
	c        *PullCase
	versions []*Version
	blobs    map[string]*Blob
	honest   bool // ignore every broken plan / fault (set by exclusions)
	known    func(string) bool
	excluded func(string)

	started  int // number of manifest requests so far = attempts begun
	cur      *attemptState
	past     []*attemptState
	inflight int
	log      []string
	// every chunk-list entry ever streamed per blob: the harness needs it to find marker blobs
	everServed map[string][]Entry
}

func NewReg(c *PullCase, known func(string) bool, excluded func(string)) *Reg {
	r := &Reg{c: c, blobs: map[string]*Blob{}, known: known, excluded: excluded, everServed: map[string][]Entry{}}
	r.versions = BuildVersions(c.Layers, c.Config, c.Update, func() bool {
		if known != nil && known(SlugLink) {
			excluded(SlugLink)
			return true
		}
		return false
	})
	for _, v := range r.versions {
		for _, b := range v.Layers {
			r.blobs[b.Hex] = b
		}
	}
	return r
}

func (r *Reg) logf(format string, a ...any) {
	if len(r.log) < 400 {
		r.log = append(r.log, fmt.Sprintf(format, a...))
	}
}

// Log returns the event log (for failure messages).
func (r *Reg) Log() []string {
	r.mu.Lock()
	defer r.mu.Unlock()
	return append([]string{}, r.log...)
}

func (r *Reg) Note(format string, a ...any) {
	r.mu.Lock()
	r.logf(format, a...)
	r.mu.Unlock()
}

func (r *Reg) chunked(b *Blob) bool { return b.Size() >= r.c.Threshold }

func (r *Reg) plan(a *attemptState, b *Blob) Plan {
	if a.script != nil && len(a.script.Replan) > 0 {
		return a.script.Replan[b.Idx%len(a.script.Replan)]
	}
	if len(r.c.Plans) == 0 {
		return Plan{}
	}
	return r.c.Plans[b.Idx%len(r.c.Plans)]
}

// planAttempt fixes every chunk list of the attempt up front. Exclusion of SlugPlan: the client's
// only completeness test is sum(received) == sum(sizes) over the whole pull, so a list with excess
// bytes (overlap) cancels a list with missing bytes (gap, cut list, failed chunk-list request, list
// withheld and then cut by a cancellation) of this or another layer; with the finding listed, overlap lists are served honestly in such attempts.
func (r *Reg) planAttempt(a *attemptState) {
	excess, deficit := false, false
	for pos, b := range a.version.Layers {
		if !r.chunked(b) {
			continue
		}
		s := r.serve(a, pos)
		n := 0
		for _, e := range s.entries {
			n += e.Size()
		}
		if n > b.Size() {
			excess = true
		}
		// a withheld list (gateAt) counts as a possible deficit: a cancellation or read timeout at
		// the gate cuts the list short, which the client notes without failing the pull
		if n < b.Size() || r.fault(a, "sums", pos, 0) != nil || s.gateAt >= 0 {
			deficit = true
		}
	}
	if excess && deficit && r.known != nil && r.known(SlugPlan) {
		for pos, b := range a.version.Layers {
			if r.chunked(b) && a.served[pos].broken == "overlap" {
				r.excluded(SlugPlan)
				p := r.plan(a, b)
				p.Broken = ""
				a.served[pos] = servePlan(b, p, false)
			}
		}
	}
	for pos, b := range a.version.Layers {
		if r.chunked(b) {
			r.everServed[b.Hex] = append(r.everServed[b.Hex], a.served[pos].entries...)
		}
	}
}

// serve returns (memoised per attempt) the chunk list of the layer at position pos.
func (r *Reg) serve(a *attemptState, pos int) served {
	if s, ok := a.served[pos]; ok {
		return s
	}
	b := a.version.Layers[pos]
	p := r.plan(a, b)
	honest := a.script == nil
	if !honest && r.known != nil {
		switch p.Broken {
		case "shift", "overrun", "lie":
			if r.known(SlugPlan) {
				r.excluded(SlugPlan)
				p.Broken = ""
			}
		}
	}
	s := servePlan(b, p, honest)
	if honest {
		s.gateAt = -1
	}
	a.served[pos] = s
	return s
}

func (r *Reg) fault(a *attemptState, kind string, pos, chunk int) *Fault {
	if a.script == nil {
		return nil
	}
	nl := len(a.version.Layers)
	for i := range a.script.Faults {
		f := &a.script.Faults[i]
		if f.Kind != kind {
			continue
		}
		if kind == "manifest" {
			return f
		}
		if mod(f.Layer, nl) != pos {
			continue
		}
		if kind == "sums" {
			return f
		}
		n := 1
		if r.chunked(a.version.Layers[pos]) {
			n = max(1, len(r.serve(a, pos).entries))
		}
		if mod(f.Chunk, n) == chunk {
			return f
		}
	}
	return nil
}

func (r *Reg) newGate(a *attemptState, key string) *gate {
	n := a.keys[key]
	a.keys[key]++
	g := &gate{key: fmt.Sprintf("%s#%d", key, n), ch: make(chan struct{})}
	a.gates = append(a.gates, g)
	return g
}

// Pending lists the withheld bodies a goroutine is currently waiting on, in a fixed order.
func (r *Reg) Pending() []string {
	r.mu.Lock()
	defer r.mu.Unlock()
	var out []string
	if r.cur == nil {
		return nil
	}
	for _, g := range r.cur.gates {
		if g.waiting && !g.released {
			out = append(out, g.key)
		}
	}
	sort.Strings(out)
	return out
}

func (r *Reg) Release(key string) {
	r.mu.Lock()
	defer r.mu.Unlock()
	for _, g := range r.cur.gates {
		if g.key == key && !g.released {
			g.released = true
			close(g.ch)
			r.logf("  harness releases %s", key)
		}
	}
}

// Inflight is the number of requests being answered or whose response body is still open.
func (r *Reg) Inflight() int {
	r.mu.Lock()
	defer r.mu.Unlock()
	return r.inflight
}

// Started is the number of attempts begun (manifest requests seen).
func (r *Reg) Started() int {
	r.mu.Lock()
	defer r.mu.Unlock()
	return r.started
}

func (r *Reg) Current() *attemptState {
	r.mu.Lock()
	defer r.mu.Unlock()
	return r.cur
}

// ------------------------------------------------------------------------------------- bodies

type body struct {
	r       *Reg
	ctx     context.Context
	data    []byte
	off     int
	gateAt  int // -1: none
	g       *gate
	endErr  error // returned instead of io.EOF after the data
	readMax int
	rec     *chunkRec // nil for manifest / chunk lists
	full    bool      // data is the complete honest answer
	closed  bool
	label   string
}

func (b *body) finish(state string) {
	// r.mu held
	if b.closed {
		return
	}
	b.closed = true
	b.r.inflight--
	if b.rec != nil && b.rec.state == "open" {
		b.rec.state = state
		if state == "done" {
			a := b.r.cur
			a.doneSeq++
			b.rec.seq = a.doneSeq
		}
		b.r.logf("  %s: %s", b.label, state)
	}
}

func (b *body) Read(p []byte) (int, error) {
	if len(p) == 0 {
		return 0, nil
	}
	if err := b.ctx.Err(); err != nil {
		b.r.mu.Lock()
		b.finish("failed")
		b.r.mu.Unlock()
		return 0, context.Cause(b.ctx)
	}
	if b.off == b.gateAt && b.g != nil {
		b.r.mu.Lock()
		rel := b.g.released
		if !rel {
			b.g.waiting = true
		}
		b.r.mu.Unlock()
		if !rel {
			select {
			case <-b.g.ch:
			case <-b.ctx.Done():
				b.r.mu.Lock()
				b.g.waiting = false
				b.finish("failed")
				b.r.mu.Unlock()
				return 0, context.Cause(b.ctx)
			}
			b.r.mu.Lock()
			b.g.waiting = false
			b.r.mu.Unlock()
		}
		b.g = nil
	}
	limit := len(b.data)
	if b.g != nil && b.off < b.gateAt {
		limit = b.gateAt
	}
	if b.off >= len(b.data) {
		b.r.mu.Lock()
		if b.endErr == nil && b.full {
			b.finish("done")
		} else {
			b.finish("failed")
		}
		b.r.mu.Unlock()
		if b.endErr != nil {
			return 0, b.endErr
		}
		return 0, io.EOF
	}
	n := limit - b.off
	if b.readMax > 0 && n > b.readMax {
		n = b.readMax
	}
	if n > len(p) {
		n = len(p)
	}
	copy(p, b.data[b.off:b.off+n])
	b.off += n
	return n, nil
}

func (b *body) Close() error {
	b.r.mu.Lock()
	// a body closed before its end was not completely delivered, unless every byte was handed over
	if b.off >= len(b.data) && b.endErr == nil && b.full {
		b.finish("done")
	} else {
		b.finish("failed")
	}
	b.r.mu.Unlock()
	return nil
}

var errReset = errors.New("fake registry: read tcp 10.0.0.1:443: connection reset by peer")
var errOther = errors.New("fake registry: remote error: tls: internal error")

func statusResp(req *http.Request, code int, errcode string) *http.Response {
	msg := fmt.Sprintf(`{"errors":[{"code":%q,"message":"scripted fault"}]}`, errcode)
	return &http.Response{
		StatusCode: code, Status: fmt.Sprintf("%d %s", code, http.StatusText(code)),
		Proto: "HTTP/1.1", ProtoMajor: 1, ProtoMinor: 1,
		Header: http.Header{"Content-Type": {"application/json"}}, Body: io.NopCloser(strings.NewReader(msg)),
		ContentLength: int64(len(msg)), Request: req,
	}
}

func okResp(req *http.Request, code int, hdr http.Header, b io.ReadCloser) *http.Response {
	if hdr == nil {
		hdr = http.Header{}
	}
	return &http.Response{
		StatusCode: code, Status: fmt.Sprintf("%d %s", code, http.StatusText(code)),
		Proto: "HTTP/1.1", ProtoMajor: 1, ProtoMinor: 1,
		Header: hdr, Body: b, ContentLength: -1, Request: req,
	}
}

func statusFault(req *http.Request, typ string) (*http.Response, error, bool) {
	switch typ {
	case "s500":
		return statusResp(req, 500, "INTERNAL_ERROR"), nil, true
	case "s503":
		return statusResp(req, 503, "UNAVAILABLE"), nil, true
	case "s404":
		return statusResp(req, 404, "BLOB_UNKNOWN"), nil, true
	case "s403":
		return statusResp(req, 403, "DENIED"), nil, true
	case "neterr":
		return nil, errReset, true
	case "neterr2":
		return nil, errOther, true
	}
	return nil, nil, false
}

// RoundTrip implements http.RoundTripper.
func (r *Reg) RoundTrip(req *http.Request) (*http.Response, error) {
	if req.Body != nil {
		io.Copy(io.Discard, req.Body)
		req.Body.Close()
	}
	if err := req.Context().Err(); err != nil {
		return nil, context.Cause(req.Context())
	}
	r.mu.Lock()
	defer r.mu.Unlock()
	path := req.URL.Path
	prefix := "/v2/" + NS + "/" + Model + "/"
	if req.Method != "GET" || !strings.HasPrefix(path, prefix) {
		r.logf("unexpected request %s %s", req.Method, req.URL)
		return statusResp(req, 400, "UNSUPPORTED"), nil
	}
	rest := strings.TrimPrefix(path, prefix)
	switch {
	case rest == "manifests/"+Tag:
		return r.manifest(req)
	case strings.HasPrefix(rest, "chunksums/"):
		return r.sums(req, strings.TrimPrefix(rest, "chunksums/sha256:"))
	case strings.HasPrefix(rest, "blobs/"):
		return r.blob(req, strings.TrimPrefix(rest, "blobs/sha256:"))
	}
	r.logf("unexpected request %s %s", req.Method, req.URL)
	return statusResp(req, 404, "NOT_FOUND"), nil
}

func (r *Reg) manifest(req *http.Request) (*http.Response, error) {
	if r.cur != nil {
		r.past = append(r.past, r.cur)
	}
	a := &attemptState{idx: r.started, served: map[int]served{}, keys: map[string]int{}}
	r.started++
	if len(r.c.Attempts) > 0 && a.idx < r.c.scripted() && !r.honest {
		a.script = r.c.scriptAt(a.idx)
	}
	v := 0
	if n := len(r.c.Attempts); n > 0 {
		v = r.c.Attempts[n-1].Version // after the script the registry keeps publishing its latest manifest
	}
	if a.script != nil {
		v = a.script.Version
	}
	a.version = r.versions[mod(v, len(r.versions))]
	r.cur = a
	r.planAttempt(a)
	r.logf("attempt %d: GET manifest (version %d, %d layers)", a.idx, mod(v, len(r.versions)), len(a.version.Layers))
	data := a.version.Manifest
	if f := r.fault(a, "manifest", 0, 0); f != nil {
		r.logf("  manifest fault %s", f.Type)
		if resp, err, ok := statusFault(req, f.Type); ok {
			if f.Type == "s404" {
				resp = statusResp(req, 404, "MANIFEST_UNKNOWN")
			}
			return resp, err
		}
		switch f.Type {
		case "garbage":
			data = []byte(`{"layers":[{"digest":"sha256:zz","size":"x"}`)
		case "short":
			data = data[:len(data)/2]
		case "nolayers":
			data = []byte(`{"schemaVersion":2,"layers":[]}`)
		}
	}
	return okResp(req, 200, nil, io.NopCloser(bytes.NewReader(data))), nil
}

func (r *Reg) posOf(a *attemptState, hexsum string) int {
	for i, b := range a.version.Layers {
		if b.Hex == hexsum {
			return i
		}
	}
	return -1
}

func (r *Reg) sums(req *http.Request, hexsum string) (*http.Response, error) {
	a := r.cur
	if a == nil {
		return statusResp(req, 404, "NOT_FOUND"), nil
	}
	pos := r.posOf(a, hexsum)
	if pos < 0 {
		r.logf("  chunksums for a blob not in the manifest: %s", hexsum)
		return statusResp(req, 404, "BLOB_UNKNOWN"), nil
	}
	b := a.version.Layers[pos]
	r.logf("  GET chunksums layer %d (%d bytes)", pos, b.Size())
	if f := r.fault(a, "sums", pos, 0); f != nil {
		r.logf("  chunksums fault %s", f.Type)
		if resp, err, ok := statusFault(req, f.Type); ok {
			return resp, err
		}
	}
	s := r.serve(a, pos)
	var sb strings.Builder
	gateOff := -1
	for i, e := range s.entries {
		if i == s.gateAt {
			gateOff = sb.Len()
		}
		fmt.Fprintf(&sb, "sha256:%s %d-%d\n", e.Hex, e.Start, e.End)
	}
	if s.gateAt == len(s.entries) {
		gateOff = sb.Len()
	}
	var endErr error
	switch s.tail {
	case "mid":
		fmt.Fprintf(&sb, "sha256:%s", HexSum([]byte("dangling")))
	case "garbage":
		sb.WriteString("this-is-not-a-digest 0-1\n")
	case "badrange":
		fmt.Fprintf(&sb, "sha256:%s 7-3\n", HexSum([]byte("dangling")))
	case "err":
		endErr = errReset
	}
	if s.broken != "" {
		r.logf("  chunk list is broken: %s", s.broken)
	}
	bd := &body{r: r, ctx: req.Context(), data: []byte(sb.String()), gateAt: gateOff, endErr: endErr, label: fmt.Sprintf("chunk list of layer %d", pos)}
	if gateOff >= 0 {
		bd.g = r.newGate(a, fmt.Sprintf("L%02d:sums", pos))
	}
	r.inflight++
	hdr := http.Header{"Content-Location": {"https://blobs.example.net" + "/v2/" + NS + "/" + Model + "/blobs/sha256:" + hexsum}}
	return okResp(req, 200, hdr, bd), nil
}

// overlapsOther: some chunk-list entry ever streamed for this blob has other bounds and intersects lo-hi.
func (r *Reg) overlapsOther(hexsum string, lo, hi int) bool {
	for _, e := range r.everServed[hexsum] {
		if (e.Start != lo || e.End != hi) && e.Start <= hi && lo <= e.End {
			return true
		}
	}
	return false
}

func parseRange(h string) (lo, hi int, ok bool) {
	h = strings.TrimPrefix(h, "bytes=")
	i := strings.Index(h, "-")
	if i < 0 {
		return 0, 0, false
	}
	lo, err1 := strconv.Atoi(h[:i])
	hi, err2 := strconv.Atoi(h[i+1:])
	return lo, hi, err1 == nil && err2 == nil
}

func (r *Reg) blob(req *http.Request, hexsum string) (*http.Response, error) {
	a := r.cur
	if a == nil {
		return statusResp(req, 404, "NOT_FOUND"), nil
	}
	pos := r.posOf(a, hexsum)
	if pos < 0 {
		r.logf("  GET blob not in the manifest: %s", hexsum)
		return statusResp(req, 404, "BLOB_UNKNOWN"), nil
	}
	b := a.version.Layers[pos]
	lo, hi, ok := parseRange(req.Header.Get("Range"))
	if !ok {
		lo, hi = 0, b.Size()-1
	}
	ordinal := 0
	var lie []byte
	if r.chunked(b) {
		s := r.serve(a, pos)
		for i, e := range s.entries {
			if e.Start == lo && e.End == hi {
				ordinal = i
				break
			}
		}
		lie = s.lies[[2]int{lo, hi}]
	}
	planDigestOK := true
	if r.chunked(b) {
		if s := r.serve(a, pos); ordinal < len(s.entries) && s.entries[ordinal].Start == lo && s.entries[ordinal].End == hi {
			planDigestOK = s.entries[ordinal].Hex == HexSum(rangeBytes(b, lo, hi))
		}
	}
	rec := &chunkRec{layerPos: pos, hex: hexsum, start: lo, end: hi, ordinal: ordinal, state: "open"}
	a.chunks = append(a.chunks, rec)
	label := fmt.Sprintf("blob layer %d bytes %d-%d", pos, lo, hi)
	r.logf("  GET %s", label)
	data := rangeBytes(b, lo, hi)
	full := planDigestOK
	if !planDigestOK {
		rec.faulted = true
	}
	if lie != nil {
		data, full = lie, true // wrong bytes that match the listed chunk digest: the client accepts them
		rec.faulted = true
	}
	var endErr error
	if f := r.fault(a, "blob", pos, ordinal); f != nil {
		r.logf("  %s: fault %s at %d", label, f.Type, f.At)
		rec.faulted = true
		if resp, err, ok := statusFault(req, f.Type); ok {
			rec.state = "failed"
			return resp, err
		}
		full = false
		switch f.Type {
		case "short":
			data = data[:mod(f.At, max(1, len(data)))]
		case "reset":
			data = data[:mod(f.At, max(1, len(data)))]
			endErr = errReset
		case "flip":
			if len(data) > 0 && r.overlapsOther(hexsum, lo, hi) && r.known != nil && r.known(SlugStale) {
				// exclusion: corrupt bytes over a range another (differently bounded) chunk of this
				// layer may hold a marker for; serve an honest short body instead
				r.excluded(SlugStale)
				data = data[:mod(f.At, len(data))]
			} else if len(data) > 0 {
				data = append([]byte{}, data...)
				data[mod(f.At, len(data))] ^= 0xff
				rec.corrupt = true
			} else {
				full = true
				rec.faulted = false
			}
		}
	}
	bd := &body{r: r, ctx: req.Context(), data: data, gateAt: -1, endErr: endErr, rec: rec, full: full, label: label}
	if a.script != nil {
		bd.readMax = a.script.ReadMax
		if n := len(a.script.Splits); n > 0 {
			switch a.script.Splits[(pos*5+ordinal)%n] {
			case 1:
				bd.gateAt = 0
			case 2:
				bd.gateAt = len(data) / 2
			case 3:
				bd.gateAt = max(0, len(data)-1)
			}
		}
	}
	if bd.gateAt >= 0 {
		bd.g = r.newGate(a, fmt.Sprintf("L%02d:%06d", pos, lo))
	}
	r.inflight++
	return okResp(req, 206, nil, bd), nil
}
