// Package c13gen is the generator, reference grammar and sandbox auditor shared by the C13
// harnesses ("model names and digests cannot address anything outside the model store").
//
// It exists only in the build overlay (CHECK["builds"][i]["shims"] maps it to
// <repo>/verifc13gen/c13_gen.go); nothing is written under the repository. It contains no code
// under test: everything here is either a rapid generator (all draws, no RNG of its own) or an
// independent restatement of what the documentation of the code under test promises.
package c13gen

import (
	"errors"
	"fmt"
	"io/fs"
	"os"
	"path/filepath"
	"sort"
	"strconv"
	"strings"

	"pgregory.net/rapid"
)

// ---------------------------------------------------------------------------- reference grammar

const (
	KHost = iota
	KNamespace
	KModel
	KTag
)

var KindName = [4]string{"host", "namespace", "model", "tag"}

// Defaults documented by model.DefaultName / server.Default* / ollama.DefaultMask.
var Defaults = [4]string{"registry.ollama.ai", "library", "", "latest"}

// grammarOff (development aid for sensitivity runs only) switches the documented-grammar oracle
// off, to show that the confinement, round-trip and file-system oracles bite on their own.
var grammarOff = os.Getenv("VERIF_C13_NO_GRAMMAR") != ""

func isAlnum(c byte) bool {
	return c >= 'A' && c <= 'Z' || c >= 'a' && c <= 'z' || c >= '0' && c <= '9'
}

// RefPart restates the part grammar written in the doc comments of model.ParseName and
// names.Parse (pattern and length per part kind). It shares no code with either isValidPart.
func RefPart(kind int, s string) bool {
	max := 80
	if kind == KHost {
		max = 350
	}
	if len(s) < 1 || len(s) > max {
		return false
	}
	for i := 0; i < len(s); i++ {
		c := s[i]
		if isAlnum(c) || c == '_' {
			continue
		}
		if i == 0 {
			return false
		}
		switch {
		case c == '-':
		case c == '.' && kind != KNamespace:
		case c == ':' && kind == KHost:
		default:
			return false
		}
	}
	return true
}

// AcceptedPartOK is the oracle applied to a part of an accepted name: the documented grammar.
func AcceptedPartOK(kind int, s string) bool { return grammarOff || RefPart(kind, s) }

// SafeComponent is the weakest thing the property needs of a path component: non-empty, not "."
// or "..", and free of both path separators and NUL.
func SafeComponent(s string) bool {
	return s != "" && s != "." && s != ".." && !strings.ContainsAny(s, "/\\\x00")
}

// RefDigest restates ^sha256[:-][0-9a-fA-F]{64}$ (GetBlobsPath's comment, ParseDigest's doc).
func RefDigest(s string) bool {
	if len(s) != 71 || s[:6] != "sha256" || (s[6] != ':' && s[6] != '-') {
		return false
	}
	for i := 7; i < len(s); i++ {
		c := s[i]
		if !(c >= '0' && c <= '9' || c >= 'a' && c <= 'f' || c >= 'A' && c <= 'F') {
			return false
		}
	}
	return true
}

// JoinName prints parts the way both String methods document: [h/][n/]m[:t].
func JoinName(p [4]string) string {
	var b strings.Builder
	if p[KHost] != "" {
		b.WriteString(p[KHost])
		b.WriteByte('/')
	}
	if p[KNamespace] != "" {
		b.WriteString(p[KNamespace])
		b.WriteByte('/')
	}
	b.WriteString(p[KModel])
	if p[KTag] != "" {
		b.WriteByte(':')
		b.WriteString(p[KTag])
	}
	return b.String()
}

// CheckStorePath is the string-level confinement oracle: full must be exactly
// <dir>/<p0>/<p1>/<p2>/<p3> with four safe components, clean, and still four levels below dir
// when re-derived with filepath.Rel.
func CheckStorePath(dir, full string, parts [4]string) error {
	for i, p := range parts {
		if !SafeComponent(p) {
			return fmt.Errorf("%s part %q is not a safe path component", KindName[i], p)
		}
	}
	want := dir + "/" + strings.Join(parts[:], "/")
	if full != want {
		return fmt.Errorf("path %q, want %q", full, want)
	}
	if filepath.Clean(full) != full {
		return fmt.Errorf("path %q is not clean", full)
	}
	rel, err := filepath.Rel(dir, full)
	if err != nil {
		return fmt.Errorf("path %q not relative to %q: %v", full, dir, err)
	}
	comps := strings.Split(rel, string(filepath.Separator))
	if len(comps) != 4 {
		return fmt.Errorf("path %q lies at depth %d below %q, want 4", full, len(comps), dir)
	}
	for _, c := range comps {
		if !SafeComponent(c) {
			return fmt.Errorf("path %q has the component %q", full, c)
		}
	}
	if !strings.HasPrefix(full, dir+"/") {
		return fmt.Errorf("path %q leaves %q", full, dir)
	}
	return nil
}

// ------------------------------------------------------------------------------------ the case

// Case is one name-like input. Strings are stored Go-quoted in pure ASCII because inputs range
// over all byte values and encoding/json would replace invalid UTF-8.
type Case struct {
	Q     string    `json:"q"`              // strconv.QuoteToASCII(input)
	Base  string    `json:"base,omitempty"` // quoted skeleton the input was derived from
	Parts [4]string `json:"parts"`          // quoted intended parts of the skeleton ("" = absent)
	Steps []string  `json:"steps,omitempty"`
}

func Quote(s string) string { return strconv.QuoteToASCII(s) }

func Unquote(q string) string {
	if q == "" {
		return ""
	}
	s, err := strconv.Unquote(q)
	if err != nil {
		return q
	}
	return s
}

func (c Case) S() string { return Unquote(c.Q) }

func (c Case) BaseS() string { return Unquote(c.Base) }

func (c Case) RawParts() (p [4]string) {
	for i := range p {
		p[i] = Unquote(c.Parts[i])
	}
	return p
}

// Pure reports that the input is exactly the canonical print of its intended parts, that every
// present part satisfies the documented grammar and that the form is one of the documented ones
// (a host needs a namespace). For such inputs the documentation fixes the parse.
func (c Case) Pure() ([4]string, bool) {
	p := c.RawParts()
	if p[KModel] == "" || (p[KHost] != "" && p[KNamespace] == "") {
		return p, false
	}
	for i, s := range p {
		if s != "" && !RefPart(i, s) {
			return p, false
		}
	}
	return p, JoinName(p) == c.S()
}

// WithDefaults fills absent parts with the documented defaults.
func WithDefaults(p [4]string) [4]string {
	for i := range p {
		if p[i] == "" {
			p[i] = Defaults[i]
		}
	}
	return p
}

// Classify returns the generator-tuning classes of a raw input.
func Classify(s string) (classes []string, sepOrNonAlnum bool) {
	if strings.ContainsAny(s, "/:@\\%\x00") {
		classes = append(classes, "has_separator")
	}
	for i := 0; i < len(s); i++ {
		if !isAlnum(s[i]) {
			sepOrNonAlnum = true
			break
		}
	}
	if strings.Contains(s, "..") {
		classes = append(classes, "has_dotdot")
	}
	if strings.Contains(s, "://") {
		classes = append(classes, "has_scheme")
	}
	if strings.Contains(s, "@") {
		classes = append(classes, "has_at")
	}
	if strings.ContainsAny(s, "\\\x00%") {
		classes = append(classes, "has_backslash_nul_pct")
	}
	up, low, bin := false, false, false
	for i := 0; i < len(s); i++ {
		c := s[i]
		up = up || (c >= 'A' && c <= 'Z')
		low = low || (c >= 'a' && c <= 'z')
		bin = bin || c < 0x20 || c >= 0x7f
	}
	if up && low {
		classes = append(classes, "mixed_case")
	}
	if bin {
		classes = append(classes, "control_or_non_ascii")
	}
	near := len(s) <= 1 || (len(s) >= 590 && len(s) <= 596)
	for _, seg := range strings.FieldsFunc(s, func(r rune) bool { return r == '/' || r == ':' || r == '@' }) {
		switch len(seg) {
		case 79, 80, 81, 349, 350, 351:
			near = true
		}
	}
	if near {
		classes = append(classes, "near_limit_length")
	}
	return classes, sepOrNonAlnum
}

// -------------------------------------------------------------------------------- generators

const (
	lower = "abcdefghijklmnopqrstuvwxyz"
	upper = "ABCDEFGHIJKLMNOPQRSTUVWXYZ"
	digit = "0123456789"
)

var (
	firstAlpha = []byte(lower + upper + digit + "____")
	bodyAlpha  = [4][]byte{
		[]byte(lower + upper + digit + "__--..::--..::"),
		[]byte(lower + upper + digit + "__----"),
		[]byte(lower + upper + digit + "__--....--"),
		[]byte(lower + upper + digit + "__--....--"),
	}
	// Bytes that matter to one of the parsers, to the file system or to a URL.
	hotBytes = []byte{'/', ':', '@', '.', '-', '_', '\\', '%', 0, '/', ':', '.', ' ', '~', '+', '*', '?', '#', '[', '\n', '\t', 0x7f, 0x80, 0xff, 0xc3}

	goodSpecial = [4][]string{
		// (a default word of one part also appears in the pools of the other parts: a host spelled "library", a
		// namespace spelled like the default host - printing short forms must not confuse them)
		{"registry.ollama.ai", "localhost:11434", "127.0.0.1:5000", "hf.co", "Registry.Ollama.AI", "h", "_", "a:", "a::b", "a..b", "a.-_:", "0", "example.com:443", "x--y", "library", "Library", "latest"},
		{"library", "Library", "n", "_", "user_name", "a-b", "a--", "0", "LIBRARY", "registry.ollama.ai", "latest"},
		{"llama3", "m", "_", "Llama-3.2", "a..b", "a.", "a-", "0", "con", "nul", "x.gguf", "MISSING", "library", "registry.ollama.ai", "latest"},
		{"latest", "t", "LATEST", "7b-instruct-q4_K_M", "v1.2.3", "_", "a..b", "0", "latest."},
	}
	badSpecial = []string{
		// non-ASCII letters whose code point, cut to its low byte, is an ASCII letter, digit or underscore
		"\u0430", "\u0141", "\u0161", "m\u043edel", "\u0130", "\u015f",
		"..", ".", "...", "-", "-x", ".x", "..x", "x/..", "../x", "a/b", "a\\b", "..\\x", "%2e%2e", "%2F", "a%00b",
		"a\x00b", "\x00", " ", "a b", "\xc3\xa9", "\xff", "!MISSING!", "a@b", "a:b", "a.b", "~", "*", "?", "[a]", "a\nb", "",
		"a\tb", "x ", " x", "..:", ":..", "a//b", "\\", "/", ":", "@", "%", "a%2f..%2fb", "\u212a", "\uff0e\uff0e",
	}
	schemes = []string{"http", "https", "https+insecure", "http", "https", "http+insecure", "file", "", "HTTP", "x", "a://b", "..", "h/n", "https:"}
	inserts = []string{"/", ":", "//", "/../", "../", "/./", "\\..\\", "@", "..", "::", ":/", "/:", "%2f", "\\", ".", "-", "/..", "\x00", "/a/b/c/"}
	prefixs = []string{"/", "../", "./", "//", "\\", "-", ".", ":", "@", "x/", "a/b/", "../../../../../../../", " ", "\x00"}
	suffixs = []string{"/", ":", "@", "/..", ":..", "\x00", "\n", " ", "/.", ":x", "/x", "/x/y", ":latest", "\\", "/../..", "."}

	partLenSmall = []int{1, 2, 3, 1, 4, 5, 6, 2, 7, 8, 10, 12, 16, 24}
	partLenEdge  = [4][]int{
		{80, 350, 349, 79, 81, 351, 255, 256, 200},
		{80, 79, 80, 81},
		{80, 79, 80, 81},
		{80, 79, 80, 81},
	}
)

// mix spreads rapid's small-biased integers over the whole range; mix(0) == 0 so that shrinking
// still converges on position 0.
func mix(x uint64) uint64 {
	x *= 0x9E3779B97F4A7C15
	x ^= x >> 29
	x *= 0xBF58476D1CE4E5B9
	x ^= x >> 32
	return x
}

func pos(t *rapid.T, label string, n int) int {
	if n <= 0 {
		return 0
	}
	return int(mix(rapid.Uint64().Draw(t, label)) % uint64(n))
}

func pick[E any](t *rapid.T, label string, s []E) E { return rapid.SampledFrom(s).Draw(t, label) }

// goodPart draws a part from the documented grammar of its kind: first byte, then a short motif
// repeated up to a length that is usually small and sometimes on either side of the limit.
func goodPart(t *rapid.T, kind int, label string) string {
	var n int
	if pick(t, label+".edge", []bool{false, false, false, false, false, false, false, true}) {
		n = pick(t, label+".elen", partLenEdge[kind])
	} else {
		n = pick(t, label+".len", partLenSmall)
	}
	b := make([]byte, 0, n)
	b = append(b, pick(t, label+".first", firstAlpha))
	if n > 1 {
		k := rapid.IntRange(1, 5).Draw(t, label+".motif")
		motif := make([]byte, k)
		for i := range motif {
			motif[i] = pick(t, label+".c", bodyAlpha[kind])
		}
		for len(b) < n {
			b = append(b, motif[(len(b)-1)%k])
		}
	}
	return string(b)
}

func genPart(t *rapid.T, kind int, label string) string {
	switch pick(t, label+".mode", []int{0, 0, 0, 0, 0, 0, 0, 0, 1, 1, 0, 0, 2, 3, 0, 0}) {
	case 1:
		return pick(t, label+".special", goodSpecial[kind])
	case 2:
		return pick(t, label+".bad", badSpecial)
	case 3:
		p := []byte(goodPart(t, kind, label))
		p[pos(t, label+".hotpos", len(p))] = pick(t, label+".hot", hotBytes)
		return string(p)
	}
	return goodPart(t, kind, label)
}

// GenValidFQ draws four parts that satisfy the documented grammar (host at most maxHost bytes).
func GenValidFQ(t *rapid.T, label string, maxHost int) (p [4]string) {
	for k := 0; k < 4; k++ {
		for try := 0; ; try++ {
			if pick(t, label+KindName[k]+".sp", []bool{false, false, false, true}) {
				p[k] = pick(t, label+KindName[k]+".special", goodSpecial[k])
			} else {
				p[k] = goodPart(t, k, label+KindName[k])
			}
			if RefPart(k, p[k]) && (k != KHost || len(p[k]) <= maxHost) {
				break
			}
			if try > 4 {
				p[k] = "x"
				break
			}
		}
	}
	return p
}

// CaseVariant flips the case of a drawn subset of the ASCII letters of s (at least one if s has any).
func CaseVariant(t *rapid.T, label string, s string) string {
	b := []byte(s)
	var letters []int
	for i, c := range b {
		if c >= 'a' && c <= 'z' || c >= 'A' && c <= 'Z' {
			letters = append(letters, i)
		}
	}
	if len(letters) == 0 {
		return s
	}
	switch pick(t, label+".how", []int{0, 0, 1, 2, 3}) {
	case 1:
		return strings.ToUpper(s)
	case 2:
		return strings.ToLower(s)
	case 3:
		for _, i := range letters {
			b[i] ^= 0x20
		}
		return string(b)
	}
	n := rapid.IntRange(1, 4).Draw(t, label+".n")
	for j := 0; j < n; j++ {
		b[letters[pos(t, label+".at", len(letters))]] ^= 0x20
	}
	if string(b) == s {
		b[letters[0]] ^= 0x20
	}
	return string(b)
}

func hexString(t *rapid.T, label string, n int) string {
	alpha := pick(t, label+".alpha", []string{"0123456789abcdef", "0123456789abcdef", "0123456789ABCDEF", "0123456789abcdefABCDEF"})
	k := rapid.IntRange(1, 8).Draw(t, label+".motif")
	motif := make([]byte, k)
	for i := range motif {
		motif[i] = pick(t, label+".h", []byte(alpha))
	}
	b := make([]byte, n)
	for i := range b {
		b[i] = motif[i%k]
	}
	return string(b)
}

// GenDigest draws a digest-like string (returned raw; quote it before storing it in a case).
func GenDigest(t *rapid.T, label string) string {
	var s string
	switch pick(t, label+".shape", []int{0, 0, 0, 0, 0, 0, 0, 1, 1, 2, 0, 0}) {
	case 0: // canonical
		s = "sha256" + pick(t, label+".sep", []string{":", "-"}) + hexString(t, label, 64)
	case 1: // near-canonical
		prefix := pick(t, label+".prefix", []string{"sha256", "SHA256", "sha25", "sha2566", "sha512", "sha1", "", "md5", "sha256 ", " sha256", "../sha256", "Sha256"})
		sep := pick(t, label+".sep", []string{":", "-", "", "_", "/", "::", ":-", "-:", "=", ".", "\\", "%3A", "\x00", "--"})
		n := pick(t, label+".hexlen", []int{64, 63, 65, 64, 0, 1, 32, 128, 62, 66})
		s = prefix + sep + hexString(t, label, n)
	default:
		s = pick(t, label+".special", []string{
			"", "sha256", "sha256:", "sha256-", ":", "-", "..", "../../etc/passwd",
			"sha256:" + strings.Repeat("../", 21) + "x", "sha256-" + strings.Repeat("../", 21) + "x",
			"sha256:" + strings.Repeat("/", 64), "sha256:" + strings.Repeat(".", 64), "sha256-" + strings.Repeat("\\", 64),
			"sha256:" + strings.Repeat("0", 64), "sha256-" + strings.Repeat("F", 64), "sha256:" + strings.Repeat("g", 64),
			"sha256:" + strings.Repeat("\x00", 64), "sha256:" + strings.Repeat("\uff10", 64), "sha256:" + strings.Repeat("\uff10", 21) + "0",
			"sha256:" + strings.Repeat("0", 32) + "/" + strings.Repeat("0", 31), "sha256:" + strings.Repeat("0", 61) + "/..",
		})
	}
	for n := pick(t, label+".nmut", []int{0, 0, 0, 0, 0, 1, 1, 0, 2, 0}); n > 0; n-- {
		b := []byte(s)
		switch pick(t, label+".mut", []int{0, 0, 1, 2, 3, 4, 5}) {
		case 0:
			if len(b) > 0 {
				b[pos(t, label+".at", len(b))] = pick(t, label+".byte", []byte{'g', 'G', '/', '.', ':', '-', 0, '\n', ' ', 'x', '%', '\\', 0xff, '@', 'f', 'A'})
			}
		case 1:
			b = append(b, pick(t, label+".suffix", []string{"\n", " ", "/", "/..", "/../x", "\x00", ":", "-", "@", "0", "\r\n", "a"})...)
		case 2:
			b = append([]byte(pick(t, label+".pre", []string{"../", "/", " ", "\n", "./", "blobs/", "sha256:", "x"})), b...)
		case 3:
			if len(b) > 0 {
				i := pos(t, label+".at", len(b))
				b = append(b[:i], b[i+1:]...)
			}
		case 4:
			i := pos(t, label+".at", len(b)+1)
			b = append(b[:i], append([]byte{pick(t, label+".ins", []byte{'0', 'a', 'F', '/', ':', '-', '.', 0})}, b[i:]...)...)
		case 5:
			for i, c := range b {
				if c >= 'a' && c <= 'z' || c >= 'A' && c <= 'Z' {
					b[i] = c ^ 0x20
				}
			}
		}
		s = string(b)
	}
	return s
}

// GenName draws one name-like input: a skeleton in one of the documented forms built from parts
// that mostly satisfy the documented grammar, optionally wrapped in a scheme and/or an @digest
// suffix, then hit by 0-3 mutations aimed at separators, traversal sequences, case and limits.
func GenName(t *rapid.T) Case {
	var c Case
	var p [4]string
	// which parts are present: bit 0 host, 1 namespace, 3 tag (model always)
	form := pick(t, "form", []int{0b1011, 0b1011, 0b1011, 0b1010, 0b1000, 0b0011, 0b1011, 0b0010, 0b0000, 0b1011})
	for k := 0; k < 4; k++ {
		if k == KModel || form&(1<<k) != 0 {
			p[k] = genPart(t, k, KindName[k])
		}
	}
	if pick(t, "allmax", []bool{false, false, false, false, false, false, false, false, false, false, false, true}) {
		for k := 0; k < 4; k++ {
			if p[k] != "" {
				n := partLenEdge[k][0] + pick(t, "allmax.d", []int{0, 0, -1, 1})
				if n > len(p[k]) {
					p[k] += strings.Repeat(string(p[k][len(p[k])-1]), n-len(p[k]))
				}
			}
		}
	}
	s := JoinName(p)
	for i := range p {
		if p[i] != "" {
			c.Parts[i] = Quote(p[i])
		}
	}
	c.Base = Quote(s)

	if pick(t, "scheme?", []bool{false, false, false, false, false, false, false, true}) {
		sc := pick(t, "scheme", schemes)
		s = sc + "://" + s
		c.Steps = append(c.Steps, "scheme:"+sc)
	}
	if pick(t, "digest?", []bool{false, false, false, false, false, false, false, false, true}) {
		d := GenDigest(t, "at")
		s = s + "@" + d
		c.Steps = append(c.Steps, "digest")
	}
	nmut := pick(t, "nmut", []int{0, 0, 0, 0, 0, 0, 1, 1, 1, 0, 2, 1, 3, 0})
	for i := 0; i < nmut; i++ {
		var step string
		s, step = mutate(t, s)
		c.Steps = append(c.Steps, step)
	}
	c.Q = Quote(s)
	return c
}

func sepIndexes(s string) (ix []int) {
	for i := 0; i < len(s); i++ {
		if s[i] == '/' || s[i] == ':' || s[i] == '@' {
			ix = append(ix, i)
		}
	}
	return ix
}

func mutate(t *rapid.T, s string) (string, string) {
	b := []byte(s)
	op := pick(t, "mut", []string{"dupsep", "inshot", "rephot", "del", "insstr", "prefix", "suffix", "case", "sepswap", "randbyte", "trunc", "delsep", "nearsep"})
	switch op {
	case "dupsep": // "h//m", "m::t"
		if ix := sepIndexes(s); len(ix) > 0 {
			i := ix[pos(t, "mut.sep", len(ix))]
			return s[:i] + s[i:i+1] + s[i:], op
		}
		return s + "/", op
	case "delsep":
		if ix := sepIndexes(s); len(ix) > 0 {
			i := ix[pos(t, "mut.sep", len(ix))]
			return s[:i] + s[i+1:], op
		}
	case "sepswap": // replace one separator by another one
		if ix := sepIndexes(s); len(ix) > 0 {
			i := ix[pos(t, "mut.sep", len(ix))]
			return s[:i] + pick(t, "mut.newsep", []string{":", "/", "\\", "@", "%2f", "%3a", "/../", "\x00", "."}) + s[i+1:], op
		}
	case "nearsep": // hot byte right after or before a separator (first/last byte of a part)
		if ix := sepIndexes(s); len(ix) > 0 {
			i := ix[pos(t, "mut.sep", len(ix))]
			h := string(pick(t, "mut.hot", hotBytes))
			if pick(t, "mut.after", []bool{true, true, false}) {
				return s[:i+1] + h + s[i+1:], op
			}
			return s[:i] + h + s[i:], op
		}
		return string(pick(t, "mut.hot", hotBytes)) + s, op
	case "inshot":
		i := pos(t, "mut.at", len(b)+1)
		return s[:i] + string(pick(t, "mut.hot", hotBytes)) + s[i:], op
	case "rephot":
		if len(b) > 0 {
			b[pos(t, "mut.at", len(b))] = pick(t, "mut.hot", hotBytes)
			return string(b), op
		}
	case "del":
		if len(b) > 0 {
			i := pos(t, "mut.at", len(b))
			return s[:i] + s[i+1:], op
		}
	case "insstr":
		i := pos(t, "mut.at", len(b)+1)
		return s[:i] + pick(t, "mut.str", inserts) + s[i:], op
	case "prefix":
		return pick(t, "mut.str", prefixs) + s, op
	case "suffix":
		return s + pick(t, "mut.str", suffixs), op
	case "case":
		switch pick(t, "mut.case", []int{0, 1, 2}) {
		case 0:
			return strings.ToUpper(s), op
		case 1:
			return strings.ToLower(s), op
		}
		for i, c := range b {
			if c >= 'a' && c <= 'z' || c >= 'A' && c <= 'Z' {
				b[i] = c ^ 0x20
			}
		}
		return string(b), op
	case "randbyte":
		if len(b) > 0 {
			b[pos(t, "mut.at", len(b))] = rapid.Byte().Draw(t, "mut.byte")
			return string(b), op
		}
	case "trunc":
		if len(b) > 0 {
			return s[:pos(t, "mut.at", len(b))], op
		}
	}
	return s, op + "(noop)"
}

// ---------------------------------------------------------------------------------- sandbox

// Sandbox is a model store placed six directory levels below a private top directory, so that a
// derived path that climbs out of the store (but not out of the top) is seen by Audit as a file
// system fact, independently of any string reasoning.
type Sandbox struct {
	Top  string // private temp dir
	Root string // <Top>/l1/l2/l3/l4/l5/l6/models
}

const chain = "l1/l2/l3/l4/l5/l6"

// NewSandbox prefers a memory file system (the cases create and delete a few directories each;
// on a journalled disk that dominates the run time) and falls back to TMPDIR.
func NewSandbox() (*Sandbox, error) {
	// native fuzz workers are killed, not finished: they put their sandboxes where the driver removes them afterwards
	top, err := "", errors.New("unset")
	if d := os.Getenv("VERIF_SANDBOX_TOP"); d != "" {
		top, err = os.MkdirTemp(d, "verif-c13-")
	}
	if err != nil {
		top, err = os.MkdirTemp("/dev/shm", "verif-c13-")
	}
	if err != nil {
		top, err = os.MkdirTemp("", "c13-")
	}
	if err != nil {
		return nil, err
	}
	top, err = filepath.EvalSymlinks(top)
	if err != nil {
		return nil, err
	}
	// Odd shards keep the store in a directory whose name is full of pattern metacharacters (a models directory such
	// as "/data/models [v2]" is legitimate): code that lets the directory's own path take part in a glob or a regexp
	// then stops finding the names that are there.
	leaf := "models"
	if sh, _ := strconv.Atoi(os.Getenv("VERIF_SHARD")); sh%2 == 1 || os.Getenv("VERIF_REPLAY") != "" {
		leaf = `mod[e-l]s *v?\2 {a,b}`
	}
	sb := &Sandbox{Top: top, Root: filepath.Join(top, filepath.FromSlash(chain), leaf)}
	if err := os.MkdirAll(sb.Root, 0o755); err != nil {
		return nil, err
	}
	return sb, nil
}

func (sb *Sandbox) Close() { os.RemoveAll(sb.Top) }

// ResetManifests empties <Root>/manifests.
func (sb *Sandbox) ResetManifests() {
	os.RemoveAll(filepath.Join(sb.Root, "manifests"))
	os.MkdirAll(filepath.Join(sb.Root, "manifests"), 0o755)
}

// Audit walks the whole sandbox. It fails if anything exists outside <Root>/{blobs,manifests}, if a
// blob entry is not a regular file named sha256-<64 hex> directly in blobs/, if a manifest entry
// is a file at a depth other than 4 or a directory at depth 4 or more, or if a symlink exists.
// It returns the manifest files relative to manifests/ (slash separated, sorted). Offending
// entries are deleted after they have been reported, so that one escaping case cannot leak into
// the verdict of the next (shrinking and replay stay faithful).
func (sb *Sandbox) Audit() (manifests []string, err error) {
	rootRel, _ := filepath.Rel(sb.Top, sb.Root)
	rootRel = filepath.ToSlash(rootRel)
	var bad []string
	flag := func(path string, d fs.DirEntry, format string, args ...any) error {
		if err == nil {
			err = fmt.Errorf("sandbox: "+format, args...)
		}
		bad = append(bad, path)
		if d.IsDir() {
			return fs.SkipDir
		}
		return nil
	}
	werr := filepath.WalkDir(sb.Top, func(path string, d fs.DirEntry, e error) error {
		if e != nil {
			return e
		}
		rel, _ := filepath.Rel(sb.Top, path)
		rel = filepath.ToSlash(rel)
		if rel == "." || rel == rootRel || strings.HasPrefix(rootRel, rel+"/") {
			if !d.IsDir() {
				return fmt.Errorf("sandbox: %q is not a directory any more", rel)
			}
			return nil
		}
		if d.Type()&fs.ModeSymlink != 0 {
			return flag(path, d, "symlink at %q", rel)
		}
		in, ok := strings.CutPrefix(rel, rootRel+"/")
		if !ok {
			return flag(path, d, "%q was created outside the model store", rel)
		}
		comps := strings.Split(in, "/")
		switch comps[0] {
		case "blobs":
			if len(comps) == 1 && d.IsDir() {
				return nil
			}
			name := comps[len(comps)-1]
			if len(comps) != 2 || d.IsDir() || len(name) != 71 || name[:7] != "sha256-" || !RefDigest("sha256:"+name[7:]) {
				return flag(path, d, "unexpected entry %q under blobs/", in)
			}
		case "manifests":
			depth := len(comps) - 1
			switch {
			case depth <= 3 && d.IsDir():
			case depth == 4 && !d.IsDir():
				manifests = append(manifests, strings.Join(comps[1:], "/"))
			default:
				return flag(path, d, "manifest store entry %q (dir=%v) at depth %d", in, d.IsDir(), depth)
			}
		default:
			return flag(path, d, "unexpected entry %q in the model store", in)
		}
		return nil
	})
	for _, p := range bad {
		os.RemoveAll(p)
	}
	sort.Strings(manifests)
	if err == nil {
		err = werr
	}
	return manifests, err
}
