package ollamarunner

// Engine "runnersim" (C07, C14) — part 2: the scripted model, the cache spy / fault decorator and
// the Server literal.
//
// rsModel.Forward does with the KV cache exactly what an attention layer does (for every layer:
// SetLayer, Put(k, v) for the batch, Get -> key, value, mask), then reads back THROUGH THE RETURNED
// TENSORS the set of (position, token) entries each batch row can attend to. The K row of an entry
// is (token+1, position, layer), the V row (token+1, layer); the model's shift function adds the
// cache's shift offsets to the position channel, which is what RoPE re-rotation does to a real
// key. So what a row "sees" depends only on (token, position) of the visible entries — a missing,
// stale, doubled or mis-positioned entry is visible in the data.
//
// What is done with the visible sets (invariant check, choice of the next token) is the business
// of the engine's hook: C07 hashes the set, C14 follows a script.

import (
	"errors"
	"fmt"
	"math"
	"os"
	"slices"
	"sort"
	"strings"
	"sync"

	"golang.org/x/sync/semaphore"

	"github.com/ollama/ollama/kvcache"
	"github.com/ollama/ollama/llm"
	"github.com/ollama/ollama/ml"
	"github.com/ollama/ollama/model"
	"github.com/ollama/ollama/model/input"
	"github.com/ollama/ollama/sample"
)

type rsEntry struct {
	Pos int32
	Tok int32
}

const (
	rsKDim = 3
	rsVDim = 2
)

// rsHook is called once per Forward with the decoded visible set of every batch row; it returns
// the token to be "predicted" for every entry of batch.Outputs.
type rsHook func(batch input.Batch, tokens []int32, vis [][]rsEntry) ([]int32, error)

type rsModel struct {
	model.Base
	be     *rsBackend
	spy    *rsSpy
	layers int
	vocab  int      // number of logits per output row
	pieces []string // token id -> text piece (Decode)
	eos    int32    // token id of end-of-sequence, -1 = none
	encode func(string) []int32
	hook   rsHook

	forwards int
	firstErr error // first internal-invariant / hook error (also returned from Forward)
}

func (m *rsModel) fail(err error) error {
	if m.firstErr == nil {
		m.firstErr = err
	}
	return err
}

// ---- model.TextProcessor

func (m *rsModel) Encode(s string, addSpecial bool) ([]int32, error) { return m.encode(s), nil }

func (m *rsModel) Decode(ids []int32) (string, error) {
	var out string
	for _, id := range ids {
		if id < 0 || int(id) >= len(m.pieces) {
			return "", fmt.Errorf("rsModel.Decode: token %d outside vocabulary", id)
		}
		out += m.pieces[id]
	}
	return out, nil
}

func (m *rsModel) Is(id int32, special model.Special) bool {
	return special == model.SpecialEOS && m.eos >= 0 && id == m.eos
}

// ---- the shift function handed to kvcache.NewCausalCache / NewSWACache

func (m *rsModel) shift(ctx ml.Context, layer int, key, shift ml.Tensor) (ml.Tensor, error) {
	k := key.(*rsTensor)
	sh := shift.(*rsTensor)
	if len(k.shape) != 3 || k.shape[0] != rsKDim || k.shape[1] != 1 || k.shape[2] != len(sh.data) {
		return nil, m.fail(fmt.Errorf("harness: shift called with key %v and %d offsets", k.shape, len(sh.data)))
	}
	out := ctx.Empty(k.dtype, k.shape...).(*rsTensor)
	copy(out.data, k.data)
	for i, off := range sh.data {
		out.data[i*rsKDim+1] += off
	}
	return out, nil
}

// ---- model.Model

func (m *rsModel) Forward(ctx ml.Context, batch input.Batch) (ml.Tensor, error) {
	m.forwards++
	n := len(batch.Positions)
	in := batch.Inputs.(*rsTensor)
	if len(in.data) != n || len(batch.Sequences) != n {
		return nil, m.fail(fmt.Errorf("harness: batch of %d inputs, %d positions, %d sequences", len(in.data), n, len(batch.Sequences)))
	}
	tokens := make([]int32, n)
	for i, f := range in.data {
		tokens[i] = int32(f)
	}

	var vis [][]rsEntry
	for l := 0; l < m.layers; l++ {
		m.spy.SetLayer(l)
		kd := make([]float32, 0, n*rsKDim)
		vd := make([]float32, 0, n*rsVDim)
		for i := range tokens {
			kd = append(kd, float32(tokens[i]+1), float32(batch.Positions[i]), float32(l))
			vd = append(vd, float32(tokens[i]+1), float32(l))
		}
		k, _ := ctx.FromFloatSlice(kd, rsKDim, 1, n)
		v, _ := ctx.FromFloatSlice(vd, rsVDim, 1, n)
		m.spy.Put(ctx, k, v)
		key, value, mask := m.spy.Get(ctx)
		lv, err := m.readBack(l, n, key.(*rsTensor), value.(*rsTensor), mask.(*rsTensor))
		if err != nil {
			return nil, m.fail(err)
		}
		if l == 0 {
			vis = lv
			continue
		}
		for i := range lv {
			if !rsSameEntries(vis[i], lv[i]) {
				return nil, m.fail(fmt.Errorf("layer %d shows row %d %v but layer 0 shows %v", l, i, lv[i], vis[i]))
			}
		}
	}

	choice, err := m.hook(batch, tokens, vis)
	if err != nil {
		return nil, m.fail(err)
	}
	if len(choice) != len(batch.Outputs) {
		return nil, m.fail(fmt.Errorf("harness: hook returned %d choices for %d outputs", len(choice), len(batch.Outputs)))
	}
	logits := make([]float32, m.vocab*len(choice))
	for o, c := range choice {
		if c < 0 || int(c) >= m.vocab {
			return nil, m.fail(fmt.Errorf("harness: hook chose token %d outside vocabulary %d", c, m.vocab))
		}
		logits[o*m.vocab+int(c)] = 1
	}
	return ctx.FromFloatSlice(logits, m.vocab, len(choice))
}

// readBack decodes, for every real batch row, the entries whose mask value is 0.
func (m *rsModel) readBack(layer, n int, key, value, mask *rsTensor) ([][]rsEntry, error) {
	if len(mask.shape) != 2 || len(key.shape) != 3 || len(value.shape) != 3 {
		return nil, fmt.Errorf("cache returned key %v value %v mask %v", key.shape, value.shape, mask.shape)
	}
	hist, rows := mask.shape[0], mask.shape[1]
	if rows < n || key.shape[2] != hist || value.shape[2] != hist || key.shape[0] != rsKDim || value.shape[0] != rsVDim {
		return nil, fmt.Errorf("cache returned key %v value %v mask %v for a batch of %d", key.shape, value.shape, mask.shape, n)
	}
	out := make([][]rsEntry, n)
	for i := 0; i < rows; i++ {
		for j := 0; j < hist; j++ {
			mv := mask.data[i*hist+j]
			if math.IsInf(float64(mv), -1) {
				continue
			}
			if mv != 0 {
				return nil, fmt.Errorf("mask[%d][%d] = %v, neither 0 nor -Inf", i, j, mv)
			}
			if i >= n {
				return nil, fmt.Errorf("padding row %d of the mask (batch of %d) is not fully masked", i, n)
			}
			kt, kp, kl := key.data[j*rsKDim], key.data[j*rsKDim+1], key.data[j*rsKDim+2]
			vt, vl := value.data[j*rsVDim], value.data[j*rsVDim+1]
			if kt == 0 && vt == 0 {
				return nil, fmt.Errorf("row %d attends to history cell %d which was never written", i, j)
			}
			if kt != vt || int(kl) != layer || int(vl) != layer {
				return nil, fmt.Errorf("row %d, cell %d: key says token %v layer %v, value says token %v layer %v (current layer %d)",
					i, j, kt-1, kl, vt-1, vl, layer)
			}
			out[i] = append(out[i], rsEntry{Pos: int32(kp), Tok: int32(kt) - 1})
		}
		if i < n {
			rsSortEntries(out[i])
		}
	}
	return out, nil
}

func rsSortEntries(e []rsEntry) {
	sort.Slice(e, func(a, b int) bool {
		if e[a].Pos != e[b].Pos {
			return e[a].Pos < e[b].Pos
		}
		return e[a].Tok < e[b].Tok
	})
}

func rsSameEntries(a, b []rsEntry) bool {
	if len(a) != len(b) {
		return false
	}
	for i := range a {
		if a[i] != b[i] {
			return false
		}
	}
	return true
}

// rsHash is the deterministic "what the model saw" digest (FNV-1a over the sorted entries).
func rsHash(salt uint32, e []rsEntry) uint32 {
	h := uint32(2166136261) ^ salt
	mix := func(v uint32) {
		for i := 0; i < 4; i++ {
			h ^= v & 0xff
			h *= 16777619
			v >>= 8
		}
	}
	for _, x := range e {
		mix(uint32(x.Pos))
		mix(uint32(x.Tok))
	}
	h ^= h >> 15
	h *= 0x2c1b3c6d
	h ^= h >> 12
	return h
}

// --------------------------------------------------------------------------------- cache spy

const (
	rsKindCausal    = "causal"    // kvcache.NewCausalCache(shift)
	rsKindSWA       = "swa"       // kvcache.NewSWACache(window, shift)
	rsKindNilShift  = "nilshift"  // kvcache.NewCausalCache(nil): real cache whose Remove fails in shift() AFTER changing metadata
	rsKindNoShift   = "noshift"   // decorator: Remove with an end other than MaxInt32 is refused ("cannot shift")
	rsKindNoPartial = "nopartial" // decorator: every Remove except (0, MaxInt32) is refused ("cannot partially erase")
)

var rsKinds = []string{rsKindCausal, rsKindSWA, rsKindNilShift, rsKindNoShift, rsKindNoPartial}

type rsRemoveOp struct {
	Seq        int
	Begin, End int32
	Err        bool
}

// rsSpy records what the runner asks of the cache and injects the two "refusing" behaviours.
// It never alters a request it lets through, with ONE switchable exception (honourMinusOne, only
// set when the finding it works around is listed as known): see Remove.
type rsSpy struct {
	kvcache.Cache
	kind           string
	honourMinusOne bool
	inflateSWA     bool
	inflated       bool
	denyForked     bool
	forked         map[int]bool // sequences that were the destination of CopyPrefix and have not been forwarded since
	deniedForked   int

	removes      []rsRemoveOp
	copies       int
	shiftsOK     int // Remove(begin, end != MaxInt32) that succeeded
	shiftsFailed int // … that returned an error
	eraseFailed  int // Remove(begin != 0, MaxInt32) that returned an error
	minusOne     int // Remove calls with end < begin (not a range at all)
	honoured     int
	resumeDenied int
}

func (s *rsSpy) Remove(seq int, begin, end int32) error {
	if end < begin {
		// Not a range of the kvcache.Cache contract ("[beginIndex, endIndex)", MaxInt32 = to the
		// end). The only such call in the runner is ShiftCacheSlot's Remove(id, 0, -1).
		s.minusOne++
		if s.honourMinusOne {
			// Known finding assumed: answer like llama.cpp's seq_rm(id, 0, -1) (= clear), which is
			// what the caller evidently means, so that the reprocess path BEHIND the defect is
			// still explored. Counted by the engine as excluded_by_known_finding.
			s.honoured++
			end = math.MaxInt32
		}
	}
	var err error
	switch {
	case s.kind == rsKindNoShift && end != math.MaxInt32:
		err = kvcache.ErrNotSupported
	case s.kind == rsKindNoPartial && !(begin == 0 && end == math.MaxInt32):
		err = kvcache.ErrNotSupported
	default:
		err = s.Cache.Remove(seq, begin, end)
	}
	s.removes = append(s.removes, rsRemoveOp{seq, begin, end, err != nil})
	switch {
	case end >= begin && end != math.MaxInt32 && err == nil:
		s.shiftsOK++
	case end >= begin && end != math.MaxInt32:
		s.shiftsFailed++
	case end == math.MaxInt32 && begin != 0 && err != nil:
		s.eraseFailed++
	}
	return err
}

// Init passes the runner's parameters through. Only when the sliding-window sizing finding is
// listed as known, the sliding-window cache is told a larger maxBatch so that it is big enough for
// what `maxSequences` sequences can hold between evictions (window+maxBatch each), and the search
// goes on behind that defect.
func (s *rsSpy) Init(backend ml.Backend, dtype ml.DType, maxSequences, capacity, maxBatch int) {
	if s.inflateSWA && s.kind == rsKindSWA && maxSequences > 1 {
		s.inflated = true
		maxBatch = maxSequences * (maxBatch + 1)
	}
	s.Cache.Init(backend, dtype, maxSequences, capacity, maxBatch)
}

func (s *rsSpy) CopyPrefix(src, dst int, n int32) {
	s.copies++
	if s.forked == nil {
		s.forked = map[int]bool{}
	}
	s.forked[dst] = true
	s.Cache.CopyPrefix(src, dst, n)
}

func (s *rsSpy) StartForward(ctx ml.Context, batch input.Batch, reserve bool) error {
	for _, seq := range batch.Sequences {
		delete(s.forked, seq)
	}
	return s.Cache.StartForward(ctx, batch, reserve)
}

// CanResume passes the cache's answer through. Only when the kvcache finding "CanResume looks at
// the highest stored position only" is listed as known, a sliding-window sequence that has just
// received a copied prefix (whose source may already have evicted the low end of the window) is
// reported as not resumable, which makes the runner re-evaluate the whole prompt.
func (s *rsSpy) CanResume(seq int, pos int32) bool {
	ok := s.Cache.CanResume(seq, pos)
	if ok && s.denyForked && s.kind == rsKindSWA && s.forked[seq] {
		s.deniedForked++
		ok = false
	}
	if !ok {
		s.resumeDenied++
	}
	return ok
}

// ------------------------------------------------------------------------------ server literal

type rsConfig struct {
	Parallel  int    `json:"parallel"`
	NumCtx    int    `json:"num_ctx"` // per slot
	Batch     int    `json:"batch"`
	MultiUser bool   `json:"multi_user"`
	Kind      string `json:"kind"`
	Window    int    `json:"window,omitempty"` // swa only
	Layers    int    `json:"layers"`
	Pad       int    `json:"pad"`      // ml.CacheConfig.CachePadding
	MaskPad   int    `json:"mask_pad"` // ml.CacheConfig.MaskBatchPadding
}

// rsKnown says which known findings are assumed (their class is then neutralised so that the
// search continues behind them); the zero value is the strict engine used by every replay.
type rsKnown struct {
	shiftReset   bool // ShiftCacheSlot's Remove(id, 0, -1): answered as "clear" (see rsSpy.Remove)
	defragMerged bool // Causal.defrag's merged moves: the case is abandoned without a verdict (see rsBackend.abandonMerged)
	swaResume    bool // CanResume right after CopyPrefix into a sliding-window sequence: answered "no" (see rsSpy.CanResume)
	swaUndersized bool // sliding-window cache sized parallel*window+batch: Init is given a larger maxBatch (see rsSpy.Init)
	swaShiftHole bool // sliding window + shift that keeps a prefix the window has already evicted: such requests run with num_keep 0
}

type rsSim struct {
	cfg   rsConfig
	s     *Server
	m     *rsModel
	spy   *rsSpy
	stats *rsStats
}

// rsNewSim builds model, cache and Server the way loadModel does (minus reading a model file and
// minus reserveWorstCaseGraph, which allocates nothing here).
func rsNewSim(cfg rsConfig, vocab int, pieces []string, eos int32, encode func(string) []int32, known rsKnown) (*rsSim, error) {
	if cfg.Layers < 1 {
		cfg.Layers = 1
	}
	stats := &rsStats{}
	be := &rsBackend{cfg: ml.CacheConfig{CachePadding: cfg.Pad, MaskBatchPadding: cfg.MaskPad}, stats: stats, abandonMerged: known.defragMerged}
	m := &rsModel{be: be, layers: cfg.Layers, vocab: vocab, pieces: pieces, eos: eos, encode: encode}
	var real kvcache.Cache
	switch cfg.Kind {
	case rsKindSWA:
		if cfg.Window < 1 {
			return nil, errors.New("harness: swa needs a window")
		}
		real = kvcache.NewSWACache(int32(cfg.Window), m.shift)
	case rsKindNilShift:
		real = kvcache.NewCausalCache(nil)
	case rsKindCausal, rsKindNoShift, rsKindNoPartial:
		real = kvcache.NewCausalCache(m.shift)
	default:
		return nil, fmt.Errorf("harness: unknown cache kind %q", cfg.Kind)
	}
	spy := &rsSpy{Cache: real, kind: cfg.Kind, honourMinusOne: known.shiftReset, inflateSWA: known.swaUndersized, denyForked: known.swaResume}
	m.spy = spy
	m.Base = model.VerifNewBase(be, spy)

	s := &Server{
		model:     m,
		status:    llm.ServerStatusReady,
		parallel:  cfg.Parallel,
		batchSize: cfg.Batch,
	}
	s.cond = sync.NewCond(&s.mu)
	var err error
	s.cache, err = NewInputCache(m, "", int32(cfg.NumCtx*cfg.Parallel), cfg.Parallel, cfg.Batch, cfg.MultiUser)
	if err != nil {
		return nil, err
	}
	s.seqs = make([]*Sequence, s.parallel)
	s.seqsSem = semaphore.NewWeighted(int64(s.parallel))
	return &rsSim{cfg: cfg, s: s, m: m, spy: spy, stats: stats}, nil
}

// rsGreedy is the sampler the completion handler builds for temperature 0.
func rsGreedy() sample.Sampler { return sample.NewSampler(0, 0, 0, 0, -1, nil) }

func rsTokens(in []input.Input) []int32 {
	out := make([]int32, len(in))
	for i := range in {
		out[i] = in[i].Token
	}
	return out
}

// rsAssumed: development aid — VERIF_ASSUME_KNOWN lists findings the driver does not know yet; the
// replay of such a finding (which must fail while the defect exists) is then reported as reproduced.
func rsAssumed(name string) bool {
	return slices.Contains(strings.Split(os.Getenv("VERIF_ASSUME_KNOWN"), ","), name)
}
