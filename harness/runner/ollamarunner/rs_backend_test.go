package ollamarunner

// Engine "runnersim" (C07, C14) — part 1: a minimal eager float32 tensor backend.
//
// Only what kvcache.Causal, model.Forward and processBatch need is real: contexts that create
// tensors, contiguous views that alias the parent's storage, Copy, Dim/Stride/Shape/Floats.
// Every other method of ml.Backend / ml.Context / ml.Tensor is left to the embedded nil
// interface, so an unexpected call panics loudly (a harness bug, never a verdict).
//
// Adapted from the fake backend in kvcache/causal_test.go (that file is masked out of the
// overlay build, and it belongs to another package anyway).

import (
	"fmt"

	"github.com/ollama/ollama/ml"
)

// rsStats counts what the cache did to its own storage (evidence classes only, never an oracle).
type rsStats struct {
	defragMoves  int // copies between two views of cache storage (Causal.moveCells)
	mergedMoves  int // … of which moved >= 2 cells in one copy
	abandoned    bool // a merged move happened while abandonMerged was set: the case has no verdict from here on
	storeTensors int
}

type rsBackend struct {
	ml.Backend
	cfg   ml.CacheConfig
	stats *rsStats

	// abandonMerged is only set when the kvcache defrag finding is listed as known: a defrag that
	// merges >= 2 cells into one move (always wrong on the unchanged tree: data copied in ascending
	// order, metadata assigned in descending order, and from the third cell on even from the wrong
	// source cells) then abandons the case — the engine stops it without a verdict and counts it
	// as excluded_by_known_finding. Never set in replays.
	abandonMerged bool
}

func (b *rsBackend) NewContext() ml.Context          { return &rsContext{b: b} }
func (b *rsBackend) NewContextSize(int) ml.Context   { return &rsContext{b: b} }
func (b *rsBackend) CacheConfig() ml.CacheConfig     { return b.cfg }

// rsMove accounts for a copy between two views of one cache storage tensor (= a defrag move).
func (b *rsBackend) rsMove(cells int) {
	b.stats.defragMoves++
	if cells >= 2 {
		b.stats.mergedMoves++
		if b.abandonMerged {
			b.stats.abandoned = true
		}
	}
}

type rsContext struct {
	ml.Context
	b *rsBackend
}

func rsTotal(shape []int) int {
	if len(shape) == 0 {
		return 0
	}
	n := 1
	for _, s := range shape {
		n *= s
	}
	return n
}

func (c *rsContext) Empty(dtype ml.DType, shape ...int) ml.Tensor {
	return &rsTensor{b: c.b, dtype: dtype, data: make([]float32, rsTotal(shape)), shape: append([]int(nil), shape...)}
}

// Zeros is only used by the cache for its K/V storage: mark those tensors.
func (c *rsContext) Zeros(dtype ml.DType, shape ...int) ml.Tensor {
	t := c.Empty(dtype, shape...).(*rsTensor)
	t.store = true
	c.b.stats.storeTensors++
	return t
}

func (c *rsContext) FromFloatSlice(s []float32, shape ...int) (ml.Tensor, error) {
	t := c.Empty(ml.DTypeF32, shape...).(*rsTensor)
	if len(s) != len(t.data) {
		return nil, fmt.Errorf("rsContext.FromFloatSlice: %d values for shape %v", len(s), shape)
	}
	copy(t.data, s)
	return t, nil
}

func (c *rsContext) FromIntSlice(s []int32, shape ...int) (ml.Tensor, error) {
	t := c.Empty(ml.DTypeI32, shape...).(*rsTensor)
	if len(s) != len(t.data) {
		return nil, fmt.Errorf("rsContext.FromIntSlice: %d values for shape %v", len(s), shape)
	}
	for i := range s {
		t.data[i] = float32(s[i])
	}
	return t, nil
}

func (c *rsContext) Input() ml.Context               { return c }
func (c *rsContext) Layer(int) ml.Context            { return c }
func (c *rsContext) Forward(...ml.Tensor) ml.Context { return c }
func (c *rsContext) Compute(...ml.Tensor)            {}
func (c *rsContext) Reserve() error                  { return nil }
func (c *rsContext) MaxGraphNodes() int              { return 8192 }
func (c *rsContext) Close()                          {}

const rsElem = 4 // bytes per element, as far as Stride/offset arithmetic is concerned

type rsTensor struct {
	ml.Tensor
	b     *rsBackend
	dtype ml.DType
	data  []float32
	shape []int
	store bool      // cache storage (created by Zeros)
	root  *rsTensor // for views: the tensor whose storage is aliased
}

func (t *rsTensor) Dim(n int) int { return t.shape[n] }

func (t *rsTensor) Stride(n int) int {
	s := rsElem
	for i := 0; i < n; i++ {
		s *= t.shape[i]
	}
	return s
}

func (t *rsTensor) Shape() []int      { return append([]int(nil), t.shape...) }
func (t *rsTensor) DType() ml.DType   { return t.dtype }
func (t *rsTensor) Bytes() []byte     { return nil }
func (t *rsTensor) Floats() []float32 { return append([]float32(nil), t.data...) }

// View supports the two forms the causal cache uses: a flat run of elements, and a 3-d view
// (d0, stride1, d1, stride2, d2) whose strides are those of a contiguous tensor.
func (t *rsTensor) View(ctx ml.Context, offset int, shape ...int) ml.Tensor {
	if offset%rsElem != 0 {
		panic(fmt.Sprintf("rsTensor.View: offset %d not element aligned", offset))
	}
	off := offset / rsElem
	var s []int
	switch len(shape) {
	case 1:
		s = []int{shape[0]}
	case 5:
		if shape[1] != shape[0]*rsElem || shape[3] != shape[0]*shape[2]*rsElem {
			panic(fmt.Sprintf("rsTensor.View: non-contiguous view %v not supported by the harness backend", shape))
		}
		s = []int{shape[0], shape[2], shape[4]}
	default:
		panic(fmt.Sprintf("rsTensor.View: unsupported view %v", shape))
	}
	n := rsTotal(s)
	if off < 0 || off+n > len(t.data) {
		panic(fmt.Sprintf("rsTensor.View: [%d,%d) outside tensor of %d elements", off, off+n, len(t.data)))
	}
	root := t.root
	if root == nil {
		root = t
	}
	return &rsTensor{b: t.b, dtype: t.dtype, data: t.data[off : off+n : off+n], shape: s, root: root}
}

// Copy is eager (the real backend defers it to Compute; order of effects is the same because
// the cache never reads a destination before computing).
func (t *rsTensor) Copy(ctx ml.Context, t2 ml.Tensor) ml.Tensor {
	d := t2.(*rsTensor)
	if len(d.data) != len(t.data) {
		panic(fmt.Sprintf("rsTensor.Copy: %d elements into %d", len(t.data), len(d.data)))
	}
	if t.root != nil && t.root.store && d.root != nil && d.root == t.root && t.b != nil {
		// a move inside cache storage = defragmentation
		row := t.root.shape[0] * t.root.shape[1]
		if row > 0 {
			t.b.rsMove(len(t.data) / row)
		}
	}
	copy(d.data, t.data)
	return d
}
