package ollamarunner

// C07 — prompt caching, slot reuse and context shifting never change what the model sees
// (see /verif/DESIGN.md section 3, "Engine runnersim" and "C07").
//
// A case is a runner configuration plus a history of completion requests. The real
// ollamarunner.Server (NewSequence, InputCache.LoadCacheSlot / ShiftCacheSlot, processBatch) runs
// on top of the real kvcache.Causal; the model is rsModel, whose next token is a hash of exactly
// the (position, token) entries the output row can attend to. The harness plays the completion
// handler (NewSequence -> seqsSem -> LoadCacheSlot -> s.seqs[i]) and the run loop (processBatch),
// so it owns the schedule: which request joins between which batches.
//
// Oracles:
//  (1) at every Forward, every batch row of slot s at position p sees exactly
//      {(q, token recorded for s at q) : q <= p} (q >= p-window for the sliding-window cache), the
//      record being slot.Inputs ++ pendingInputs — "cached state = recorded inputs";
//      after the history, every non-empty idle slot is probed by a request that reuses all of it.
//  (2) LoadCacheSlot never hands out a slot that was in use, two live sequences never share a
//      slot, the returned split is prompt = slot.Inputs ++ rest with rest non-empty, and a
//      finished request leaves slot, seqs entry and semaphore free.
//  (3) differential: tokens, text, finish reason and predicted count of every request equal
//      those of a FRESH Server of the same configuration serving that request alone.

import (
	"errors"
	"fmt"
	"os"
	"slices"
	"strings"
	"testing"

	"pgregory.net/rapid"
	"verif.local/vfkit"

	"github.com/ollama/ollama/llm"
	"github.com/ollama/ollama/model/input"
)

// Known finding (see replays/C07/shift-reset-remove-minus-one.json): after a failed shift
// ShiftCacheSlot "resets" the cache with Remove(id, 0, -1), which is not a range of the
// kvcache.Cache contract: kvcache.Causal removes nothing and moves every position by +1.
const c07KnownShiftReset = "shift-reset-remove-minus-one"

// Known finding owned by C06 (kvcache): Causal.defrag merges adjacent single-cell moves into one
// moveCells(lowest source, first destination, n), which copies the data in ascending order while
// the metadata was assigned in descending source order: data and metadata of the moved cells end
// up swapped.
const c07KnownDefrag = "defrag-merged-move-swaps-cells"

// Known finding (documented as a TODO in kvcache.Causal.Remove): with a sliding-window cache a
// context shift keeps the first num_keep inputs in the slot's record although the window has
// already evicted them from the cache; when the window of the positions after the shift reaches
// back into that prefix, the model attends to fewer entries than the record (and a fresh
// evaluation of the record) says.
const c07KnownSwaShift = "swa-shift-keeps-evicted-prefix"

// Known finding: kvcache.Causal.Init sizes a sliding-window cache as maxSequences*window+maxBatch
// cells, but every sequence keeps window+1 entries after a one-token batch (up to window+its share
// of the batch after a prompt batch) until ITS next batch; with >= 2 sequences the cache runs full,
// StartForward fails with ErrKvCacheFull, processBatch returns the error and Server.run panics.
const c07KnownSwaSize = "swa-cache-undersized"

// Known finding owned by C06 (kvcache): Causal.CanResume only looks at the highest stored position
// of the sequence; after CopyPrefix from a sequence that has already slid its window it says yes
// although the low end of the window is not stored.
const c07KnownSwaResume = "swa-canresume-ignores-evicted-window-start"

var errC07Abandoned = errors.New("case abandoned: it ran into a known finding that cannot be steered around")

// c07SwaHole: can a shift of a sequence with this effective num_keep leave the window of the next
// position reaching into an evicted part of the kept prefix? (positions reach num_ctx-1 one token
// at a time, so everything below num_ctx-1-window is gone when the shift happens)
func c07SwaHole(numCtx, window, keep int) bool {
	first := numCtx - 1 - window // lowest position still stored
	if first <= 0 {
		return false
	}
	discard := max((numCtx-keep)/2, 1)
	next := numCtx - discard // position of the first input after the shift
	low := max(0, next-window)
	return low < keep && first > low
}

type c07Req struct {
	From    int      `json:"from"`              // -1: new conversation; else continue the conversation of request From % index
	Take    int      `json:"take"`              // tokens of that conversation (prompt ++ text returned so far) to reuse
	Tail    []int    `json:"tail"`              // tokens appended to it
	Predict int      `json:"predict"`           // num_predict (>= 1)
	Keep    int      `json:"keep"`              // num_keep (-1 … num_ctx)
	Stop    []string `json:"stop,omitempty"`    // stop strings over the token alphabet
	Gap     int      `json:"gap"`               // batches between the previous arrival and this one
	Cancel  int      `json:"cancel,omitempty"`  // > 0: the client disconnects after this many batches of this request
	Probe   bool     `json:"probe,omitempty"`   // (set by the engine) epilogue probe of an idle slot
	Literal []int32  `json:"literal,omitempty"` // (set by the engine) resolved prompt, overrides From/Take/Tail
}

type c07Case struct {
	rsConfig
	Vocab  int      `json:"vocab"`   // token ids 0…Vocab-1 are the letters 'a'…; id Vocab is EOS
	EosMod int      `json:"eos_mod"` // 0: the model never predicts EOS; else it does when hash/256 % EosMod == 0
	Salt   int      `json:"salt"`
	Reqs   []c07Req `json:"reqs"`
}

type c07Result struct {
	Prompt    []int32
	Sampled   []int32 // tokens predicted by the model on this request's sampling rows
	Text      string
	Reason    llm.DoneReason
	Predicted int
	Cancelled bool
	Truncated bool
}

type c07Info struct {
	nontrivial bool
	classes    []string
	excluded   []string // known findings whose class this case fell into (and was steered around)
	summary    string
}

type c07Live struct {
	idx      int
	req      c07Req
	seq      *Sequence
	slot     *InputCacheSlot
	res      c07Result
	batches  int
	dummies  int // filler strings the harness put into seq.responses when cancelling
	finished bool
}

type c07Play struct {
	c     c07Case
	sim   *rsSim
	live  []*c07Live // every request submitted so far, by index
	bySeq map[*Sequence]*c07Live
	cls   map[string]bool
	tick  int
	solo  bool
	trace bool

	known    rsKnown
	excluded map[string]bool
}

func (p *c07Play) tracef(format string, a ...any) {
	if p.trace {
		tag := "hist"
		if p.solo {
			tag = "solo"
		}
		fmt.Fprintf(os.Stderr, "[%s b%d] "+format+"\n", append([]any{tag, p.tick}, a...)...)
	}
}

func (p *c07Play) slotsString() string {
	var sb strings.Builder
	for j := range p.sim.s.cache.slots {
		sl := &p.sim.s.cache.slots[j]
		u := ""
		if sl.InUse {
			u = "*"
		}
		fmt.Fprintf(&sb, " %d%s:%q", j, u, c07Letters(rsTokens(sl.Inputs)))
	}
	return sb.String()
}

func (p *c07Play) class(s string) { p.cls[s] = true }

func c07Letters(tokens []int32) string {
	b := make([]byte, len(tokens))
	for i, t := range tokens {
		b[i] = byte('a' + t)
	}
	return string(b)
}

func c07Encode(s string) []int32 {
	out := make([]int32, len(s))
	for i := range s {
		out[i] = int32(s[i] - 'a')
	}
	return out
}

func c07NewPlay(c c07Case, honour rsKnown, solo bool) (*c07Play, error) {
	pieces := make([]string, c.Vocab+1)
	for i := 0; i < c.Vocab; i++ {
		pieces[i] = string(rune('a' + i))
	}
	pieces[c.Vocab] = ""
	sim, err := rsNewSim(c.rsConfig, c.Vocab+1, pieces, int32(c.Vocab), c07Encode, honour)
	if err != nil {
		return nil, err
	}
	p := &c07Play{c: c, sim: sim, bySeq: map[*Sequence]*c07Live{}, cls: map[string]bool{}, solo: solo, trace: os.Getenv("C07_TRACE") != "",
		known: honour, excluded: map[string]bool{}}
	sim.m.hook = p.hook
	return p, nil
}

// hook = oracle (1) + the hash model.
func (p *c07Play) hook(batch input.Batch, tokens []int32, vis [][]rsEntry) ([]int32, error) {
	s := p.sim.s
	if p.sim.stats.abandoned {
		return nil, errC07Abandoned
	}
	seen := map[int]int{}
	rowSeq := make([]*Sequence, len(tokens))
	for i := range tokens {
		id := batch.Sequences[i]
		var seq *Sequence
		for _, sq := range s.seqs {
			if sq != nil && sq.cache != nil && sq.cache.Id == id {
				if seq != nil {
					return nil, fmt.Errorf("(2) two live sequences use cache slot %d", id)
				}
				seq = sq
			}
		}
		if seq == nil {
			return nil, fmt.Errorf("batch row %d belongs to slot %d which no live sequence owns", i, id)
		}
		rowSeq[i] = seq
		k := seen[id]
		seen[id]++
		pos := len(seq.cache.Inputs) + k
		who := "?"
		if lv := p.bySeq[seq]; lv != nil {
			who = fmt.Sprintf("request %d", lv.idx)
		}
		if int(batch.Positions[i]) != pos {
			return nil, fmt.Errorf("%s slot %d: batch row %d has position %d, but %d inputs are recorded before it", who, id, i, batch.Positions[i], pos)
		}
		if k >= len(seq.pendingInputs) || seq.pendingInputs[k].Token != tokens[i] {
			return nil, fmt.Errorf("%s slot %d: batch row %d carries token %d which is not pending input %d", who, id, i, tokens[i], k)
		}
		lo := 0
		if p.c.Kind == rsKindSWA {
			lo = max(0, pos-p.c.Window)
		}
		exp := make([]rsEntry, 0, pos-lo+1)
		for q := lo; q <= pos; q++ {
			var tok int32
			if q < len(seq.cache.Inputs) {
				tok = seq.cache.Inputs[q].Token
			} else {
				tok = seq.pendingInputs[q-len(seq.cache.Inputs)].Token
			}
			exp = append(exp, rsEntry{Pos: int32(q), Tok: tok})
		}
		if !rsSameEntries(vis[i], exp) {
			return nil, fmt.Errorf("(1) %s, slot %d, position %d (batch %d): the model sees %s but the slot's record says %s [%s]",
				who, id, pos, p.tick, c07Show(vis[i]), c07Show(exp), c07Diff(vis[i], exp))
		}
	}
	for _, sq := range s.seqs {
		if sq != nil && len(sq.pendingInputs) != seen[sq.cache.Id] {
			return nil, fmt.Errorf("slot %d has %d pending inputs but %d rows in the batch", sq.cache.Id, len(sq.pendingInputs), seen[sq.cache.Id])
		}
	}
	p.tracef("forward seqs %v pos %v tokens %q outputs %v", batch.Sequences, batch.Positions, c07Letters(tokens), batch.Outputs)
	out := make([]int32, len(batch.Outputs))
	for o, oi := range batch.Outputs {
		row := int(oi)
		if row < 0 || row >= len(tokens) {
			return nil, fmt.Errorf("batch output %d points at row %d of %d", o, row, len(tokens))
		}
		h := rsHash(uint32(p.c.Salt), vis[row])
		tok := int32(h % uint32(p.c.Vocab))
		if p.c.EosMod > 0 && (h>>8)%uint32(p.c.EosMod) == 0 {
			tok = int32(p.c.Vocab)
		}
		out[o] = tok
		seq := rowSeq[row]
		if len(seq.inputs) != 0 {
			return nil, fmt.Errorf("slot %d: output requested for a row that is not the last remaining input", seq.cache.Id)
		}
		if lv := p.bySeq[seq]; lv != nil {
			lv.res.Sampled = append(lv.res.Sampled, tok)
		}
	}
	return out, nil
}

func c07Show(e []rsEntry) string {
	var sb strings.Builder
	sb.WriteByte('{')
	for i, x := range e {
		if i > 0 {
			sb.WriteByte(' ')
		}
		fmt.Fprintf(&sb, "%d:%c", x.Pos, 'a'+x.Tok)
	}
	sb.WriteByte('}')
	return sb.String()
}

func c07Diff(got, want []rsEntry) string {
	// multiset difference (both sorted)
	var extra, missing []rsEntry
	w := slices.Clone(want)
	for _, g := range got {
		if i := slices.Index(w, g); i >= 0 {
			w = slices.Delete(w, i, i+1)
		} else {
			extra = append(extra, g)
		}
	}
	missing = w
	return fmt.Sprintf("unexpected %s, missing %s", c07Show(extra), c07Show(missing))
}

// conversation of a request so far: its prompt followed by the tokens of the text returned.
func (lv *c07Live) conversation() []int32 {
	return append(slices.Clone(lv.res.Prompt), c07Encode(lv.res.Text)...)
}

func (p *c07Play) resolve(i int, r c07Req) []int32 {
	if r.Literal != nil {
		return slices.Clone(r.Literal)
	}
	var prompt []int32
	if r.From >= 0 && i > 0 {
		conv := p.live[r.From%i].conversation()
		take := min(max(r.Take, 0), len(conv))
		prompt = conv[:take]
		if take == len(conv) && len(r.Tail) == 0 {
			p.class("exact_repeat_or_continuation")
		}
	}
	for _, t := range r.Tail {
		prompt = append(prompt, int32(((t%p.c.Vocab)+p.c.Vocab)%p.c.Vocab))
	}
	if len(prompt) == 0 {
		prompt = []int32{0}
	}
	return prompt
}

// submit repeats what Server.completion does between decoding the request and the response loop.
func (p *c07Play) submit(i int, r c07Req) error {
	s := p.sim.s
	prompt := p.resolve(i, r)
	lv := &c07Live{idx: i, req: r}
	lv.res.Prompt = prompt
	p.live = append(p.live, lv)

	seq, err := s.NewSequence(c07Letters(prompt), nil, NewSequenceParams{
		numPredict: r.Predict,
		stop:       r.Stop,
		numKeep:    int32(r.Keep),
		sampler:    rsGreedy(),
		embedding:  false,
	})
	if err != nil {
		return fmt.Errorf("request %d: NewSequence(%q): %v", i, c07Letters(prompt), err)
	}
	if p.c.Kind == rsKindSWA && c07SwaHole(p.c.NumCtx, p.c.Window, int(seq.numKeep)) && len(seq.inputs)+r.Predict-1 > p.c.NumCtx {
		p.class("class_" + c07KnownSwaShift)
		if p.known.swaShiftHole {
			// known finding assumed: steer around it, the request keeps nothing when it shifts
			p.excluded[c07KnownSwaShift] = true
			r.Keep, lv.req.Keep = 0, 0
			if seq, err = s.NewSequence(c07Letters(prompt), nil, NewSequenceParams{numPredict: r.Predict, stop: r.Stop, numKeep: 0, sampler: rsGreedy()}); err != nil {
				return fmt.Errorf("request %d: NewSequence(%q): %v", i, c07Letters(prompt), err)
			}
		}
	}
	if len(seq.inputs) < len(prompt) {
		lv.res.Truncated = true
		p.class("prompt_truncated")
	}
	if int32(len(seq.inputs)) > s.cache.numCtx {
		return fmt.Errorf("request %d: %d inputs after truncation exceed num_ctx %d", i, len(seq.inputs), s.cache.numCtx)
	}
	full := rsTokens(seq.inputs)
	if !s.seqsSem.TryAcquire(1) {
		return fmt.Errorf("(2) request %d: semaphore exhausted although only %d of %d sequences are live", i, p.active(), s.parallel)
	}
	s.mu.Lock()
	defer s.mu.Unlock()
	for k, sq := range s.seqs {
		if sq != nil {
			continue
		}
		inUse := make([]bool, len(s.cache.slots))
		longest, longestSlot := int32(-1), -1
		for j := range s.cache.slots {
			inUse[j] = s.cache.slots[j].InUse
			if n := countCommonPrefix(s.cache.slots[j].Inputs, seq.inputs); n > longest && !inUse[j] {
				longest, longestSlot = n, j
			}
		}
		copies, denied, erase := p.sim.spy.copies, p.sim.spy.resumeDenied, p.sim.spy.eraseFailed
		nrem := len(p.sim.spy.removes)
		slot, rest, err := s.cache.LoadCacheSlot(seq.inputs)
		if err != nil {
			return fmt.Errorf("(2) request %d: LoadCacheSlot failed although a sequence entry is free: %v", i, err)
		}
		if inUse[slot.Id] {
			return fmt.Errorf("(2) request %d was given cache slot %d, which is in use", i, slot.Id)
		}
		for _, other := range s.seqs {
			if other != nil && other.cache == slot {
				return fmt.Errorf("(2) request %d was given cache slot %d, which belongs to a live sequence", i, slot.Id)
			}
		}
		if !slot.InUse {
			return fmt.Errorf("(2) request %d: slot %d not marked in use after LoadCacheSlot", i, slot.Id)
		}
		got := append(rsTokens(slot.Inputs), rsTokens(rest)...)
		if !slices.Equal(got, full) || len(rest) == 0 {
			return fmt.Errorf("(2) request %d: slot %d records %v and %v remain to be evaluated, but the prompt is %v", i, slot.Id, rsTokens(slot.Inputs), rsTokens(rest), full)
		}
		if len(slot.Inputs) > 0 {
			p.class("prefix_reused")
		}
		if p.sim.spy.copies > copies {
			p.class("fork")
			if len(slot.Inputs) > 0 {
				p.class("fork_kept")
			}
		}
		if p.sim.spy.resumeDenied > denied {
			p.class("resume_denied")
		}
		if p.sim.spy.eraseFailed > erase {
			p.class("partial_erase_refused")
		}
		if s.cache.multiUserCache && len(s.cache.slots) > 1 {
			p.class("multiuser_choice")
			if slot.Id != longestSlot {
				p.class("multiuser_not_longest_slot")
			}
		}
		p.tracef("submit request %d prompt %q keep %d predict %d stop %q -> slot %d reuses %d, evaluates %q; cache ops %v; slots:%s", i, c07Letters(full), seq.numKeep, r.Predict, r.Stop,
			slot.Id, len(slot.Inputs), c07Letters(rsTokens(rest)), p.sim.spy.removes[nrem:], p.slotsString())
		seq.cache, seq.inputs = slot, rest
		s.seqs[k] = seq
		s.cond.Signal()
		lv.seq, lv.slot = seq, slot
		p.bySeq[seq] = lv
		return nil
	}
	return fmt.Errorf("(2) request %d: no free entry in s.seqs although the semaphore was acquired", i)
}

func (p *c07Play) active() int {
	n := 0
	for _, sq := range p.sim.s.seqs {
		if sq != nil {
			n++
		}
	}
	return n
}

// drain reads what a request's handler would have read by now.
func (p *c07Play) drain(lv *c07Live) error {
	for {
		select {
		case piece, ok := <-lv.seq.responses:
			if !ok {
				return p.finish(lv)
			}
			if lv.dummies > 0 {
				lv.dummies--
				continue
			}
			if piece == "" {
				return fmt.Errorf("request %d: empty piece streamed", lv.idx)
			}
			lv.res.Text += piece
		default:
			return nil
		}
	}
}

func (p *c07Play) finish(lv *c07Live) error {
	s := p.sim.s
	lv.finished = true
	lv.res.Reason = lv.seq.doneReason
	lv.res.Predicted = lv.seq.numPredicted
	p.tracef("request %d ended: reason %q predicted %d sampled %q text %q; slots:%s", lv.idx, lv.res.Reason, lv.res.Predicted, c07Letters(lv.res.Sampled), lv.res.Text, p.slotsString())
	if lv.slot.InUse {
		return fmt.Errorf("(2) request %d ended but its cache slot %d is still marked in use", lv.idx, lv.slot.Id)
	}
	for _, sq := range s.seqs {
		if sq == lv.seq {
			return fmt.Errorf("(2) request %d ended but is still listed in s.seqs", lv.idx)
		}
	}
	if int32(len(lv.slot.Inputs)) > s.cache.numCtx {
		return fmt.Errorf("slot %d records %d inputs, more than num_ctx %d", lv.slot.Id, len(lv.slot.Inputs), s.cache.numCtx)
	}
	switch lv.res.Reason {
	case llm.DoneReasonStop:
		if n := len(lv.res.Sampled); n > 0 && lv.res.Sampled[n-1] == int32(p.c.Vocab) {
			p.class("eos_hit")
		} else {
			p.class("stop_hit")
		}
	case llm.DoneReasonLength:
		p.class("length_hit")
	default:
		p.class("connection_closed")
	}
	return nil
}

func (p *c07Play) cancel(lv *c07Live) {
	// the client goes away with its response buffer full, so that the runner's next flush
	// deterministically takes the quit branch of its select
	lv.res.Cancelled = true
	for len(lv.seq.responses) < cap(lv.seq.responses) {
		lv.seq.responses <- ""
		lv.dummies++
	}
	close(lv.seq.quit)
	p.class("cancel")
}

// step = one iteration of Server.run.
func (p *c07Play) step() error {
	s := p.sim.s
	if p.active() == 0 {
		return errors.New("harness: step without a live sequence")
	}
	if p.active() >= 2 {
		p.class("parallel_overlap")
	}
	nrem := len(p.sim.spy.removes)
	err := s.processBatch()
	if len(p.sim.spy.removes) > nrem {
		p.tracef("cache ops during batch: %v", p.sim.spy.removes[nrem:])
	}
	if err != nil {
		if p.sim.stats.abandoned {
			return errC07Abandoned
		}
		if p.sim.m.firstErr != nil {
			return p.sim.m.firstErr
		}
		return fmt.Errorf("processBatch failed (Server.run panics on this): %v (batch %d)", err, p.tick)
	}
	p.tick++
	for _, lv := range p.live {
		if lv.seq == nil || lv.finished {
			continue
		}
		lv.batches++
		if lv.res.Cancelled && slices.Contains(s.seqs, lv.seq) {
			// the client is gone: nobody reads, the buffer stays full until the runner notices
			continue
		}
		if err := p.drain(lv); err != nil {
			return err
		}
		if !lv.finished && lv.req.Cancel > 0 && lv.batches == lv.req.Cancel {
			p.cancel(lv)
		}
		if !lv.finished {
			sq := lv.seq
			if !sq.cache.InUse {
				return fmt.Errorf("(2) request %d is live but its slot %d is not marked in use", lv.idx, sq.cache.Id)
			}
			if int32(len(sq.cache.Inputs)) > s.cache.numCtx {
				return fmt.Errorf("slot %d records %d inputs, more than num_ctx %d", sq.cache.Id, len(sq.cache.Inputs), s.cache.numCtx)
			}
		}
	}
	return nil
}

// run plays the whole history (and, unless solo, the epilogue probes).
func (p *c07Play) run() error {
	c := p.c
	budget := 64
	for _, r := range c.Reqs {
		budget += len(r.Tail) + len(r.Literal) + c.NumCtx + (r.Predict+1)*(c.NumCtx+3)
	}
	reqs := slices.Clone(c.Reqs)
	next, due := 0, 0
	if len(reqs) > 0 {
		due = reqs[0].Gap
	}
	probed := false
	for {
		for next < len(reqs) && due <= p.tick && p.active() < c.Parallel {
			if err := p.submit(next, reqs[next]); err != nil {
				return err
			}
			next++
			if next < len(reqs) {
				due = max(due, p.tick) + reqs[next].Gap
			}
		}
		if p.active() == 0 {
			if next < len(reqs) {
				p.tick = max(p.tick, due) // nothing to do until the next arrival
				continue
			}
			if p.solo || probed {
				break
			}
			// epilogue: probe every non-empty idle slot with a request that reuses all of it
			probed = true
			for j := range p.sim.s.cache.slots {
				in := rsTokens(p.sim.s.cache.slots[j].Inputs)
				if len(in) == 0 {
					continue
				}
				in = in[:min(len(in), c.NumCtx-1)]
				reqs = append(reqs, c07Req{From: -1, Literal: append(in, 0), Predict: 1, Keep: 0, Probe: true})
				budget += 2*c.NumCtx + 8
			}
			if next < len(reqs) {
				due = p.tick
				continue
			}
			break
		}
		if p.tick > budget {
			return fmt.Errorf("no end: %d batches processed, the whole history needs fewer than %d", p.tick, budget)
		}
		if err := p.step(); err != nil {
			return err
		}
	}
	s := p.sim.s
	for j := range s.cache.slots {
		if s.cache.slots[j].InUse {
			return fmt.Errorf("(2) all requests ended but cache slot %d is still in use", j)
		}
	}
	if !s.seqsSem.TryAcquire(int64(s.parallel)) {
		return errors.New("(2) all requests ended but the sequence semaphore is not fully released")
	}
	s.seqsSem.Release(int64(s.parallel))
	return nil
}

// c07Solo serves one resolved request on a fresh Server of the same configuration.
func c07Solo(c c07Case, lv *c07Live, honour rsKnown) (*c07Result, error) {
	sc := c
	r := lv.req
	sc.Reqs = []c07Req{{From: -1, Literal: lv.res.Prompt, Predict: r.Predict, Keep: r.Keep, Stop: r.Stop}}
	p, err := c07NewPlay(sc, honour, true)
	if err != nil {
		return nil, err
	}
	if err := p.run(); err != nil {
		return nil, err
	}
	return &p.live[0].res, nil
}

func c07Run(c c07Case, honour rsKnown) (c07Info, error) {
	var info c07Info
	if c.Parallel < 1 || c.NumCtx < 2 || c.Batch < 1 || c.Vocab < 1 || c.Vocab > 26 {
		return info, fmt.Errorf("harness: bad configuration %+v", c.rsConfig)
	}
	for i := range c.Reqs {
		c.Reqs[i].Predict = max(c.Reqs[i].Predict, 1)
		c.Reqs[i].Keep = min(max(c.Reqs[i].Keep, -1), c.NumCtx)
		c.Reqs[i].Probe, c.Reqs[i].Literal = false, nil
	}
	p, err := c07NewPlay(c, honour, false)
	if err != nil {
		return info, err
	}
	runErr := p.run()

	spy, st := p.sim.spy, p.sim.stats
	p.class("kind_" + c.Kind)
	if spy.shiftsOK > 0 {
		p.class("shift")
	}
	if spy.shiftsFailed > 0 {
		p.class("shift_failed_reprocess")
	}
	if st.defragMoves > 0 {
		p.class("defrag")
	}
	if st.mergedMoves > 0 {
		p.class("defrag_merged_move")
	}
	if spy.minusOne > 0 {
		p.class("remove_minus_one")
	}
	if spy.honoured > 0 {
		info.excluded = append(info.excluded, c07KnownShiftReset)
	}
	if st.abandoned {
		info.excluded = append(info.excluded, c07KnownDefrag)
	}
	if spy.deniedForked > 0 {
		info.excluded = append(info.excluded, c07KnownSwaResume)
	}
	if spy.inflated {
		info.excluded = append(info.excluded, c07KnownSwaSize)
	}
	if p.excluded[c07KnownSwaShift] {
		info.excluded = append(info.excluded, c07KnownSwaShift)
	}
	info.nontrivial = p.cls["fork"] || p.cls["shift"] || p.cls["shift_failed_reprocess"]
	for k := range p.cls {
		info.classes = append(info.classes, k)
	}
	slices.Sort(info.classes)
	info.summary = fmt.Sprintf("%d requests (+probes: %d submitted), %d batches, classes %v", len(c.Reqs), len(p.live), p.tick, info.classes)
	if errors.Is(runErr, errC07Abandoned) {
		return info, nil
	}
	if runErr != nil {
		return info, runErr
	}

	// (3) differential against a fresh runner, request by request
	for _, lv := range p.live {
		want, err := c07Solo(c, lv, honour)
		if errors.Is(err, errC07Abandoned) {
			if !slices.Contains(info.excluded, c07KnownDefrag) {
				info.excluded = append(info.excluded, c07KnownDefrag)
			}
			continue
		}
		if err != nil {
			return info, fmt.Errorf("fresh runner serving request %d (prompt %q) alone: %v", lv.idx, c07Letters(lv.res.Prompt), err)
		}
		got := lv.res
		what := fmt.Sprintf("(3) request %d (prompt %q, num_predict %d, num_keep %d, stop %q)", lv.idx, c07Letters(got.Prompt), lv.req.Predict, lv.req.Keep, lv.req.Stop)
		if got.Cancelled {
			// the client left early: what was generated and sent until then must agree
			n := min(len(got.Sampled), len(want.Sampled))
			if len(got.Sampled) > len(want.Sampled) || !slices.Equal(got.Sampled[:n], want.Sampled[:n]) || !strings.HasPrefix(want.Text, got.Text) {
				return info, fmt.Errorf("%s, cancelled after %d batches: generated %v / sent %q, a fresh runner generates %v / %q",
					what, lv.req.Cancel, got.Sampled, got.Text, want.Sampled, want.Text)
			}
			continue
		}
		if !slices.Equal(got.Sampled, want.Sampled) || got.Text != want.Text || got.Reason != want.Reason || got.Predicted != want.Predicted {
			return info, fmt.Errorf("%s: in the history the model generated %v, text %q, reason %q, %d predicted; a fresh runner generates %v, text %q, reason %q, %d predicted",
				what, got.Sampled, got.Text, got.Reason, got.Predicted, want.Sampled, want.Text, want.Reason, want.Predicted)
		}
	}
	return info, nil
}

// ------------------------------------------------------------------------------------ generator

func c07Gen(t *rapid.T) c07Case {
	var c c07Case
	c.Parallel = rapid.IntRange(1, 4).Draw(t, "parallel")
	c.NumCtx = rapid.IntRange(4, 24).Draw(t, "num_ctx")
	c.Batch = rapid.IntRange(1, 8).Draw(t, "batch")
	c.MultiUser = rapid.Bool().Draw(t, "multi_user")
	c.Kind = rapid.SampledFrom([]string{rsKindCausal, rsKindCausal, rsKindCausal, rsKindCausal, rsKindSWA, rsKindSWA,
		rsKindNilShift, rsKindNoShift, rsKindNoShift, rsKindNoPartial}).Draw(t, "kind")
	if c.Kind == rsKindSWA {
		c.Window = rapid.IntRange(1, c.NumCtx+4).Draw(t, "window")
	}
	c.Layers = rapid.SampledFrom([]int{1, 1, 2}).Draw(t, "layers")
	c.Pad = rapid.SampledFrom([]int{1, 1, 4}).Draw(t, "pad")
	c.MaskPad = rapid.SampledFrom([]int{1, 1, 4}).Draw(t, "mask_pad")
	c.Vocab = rapid.SampledFrom([]int{2, 3, 4, 6, 8}).Draw(t, "vocab")
	c.EosMod = rapid.SampledFrom([]int{0, 0, 0, 13, 29}).Draw(t, "eos_mod")
	c.Salt = rapid.IntRange(0, 1<<16).Draw(t, "salt")
	n := rapid.IntRange(1, 8).Draw(t, "requests")
	tok := rapid.IntRange(0, c.Vocab-1)
	for i := 0; i < n; i++ {
		var r c07Req
		r.From = -1
		if i > 0 && rapid.IntRange(0, 9).Draw(t, "continue") < 7 {
			r.From = rapid.IntRange(0, i-1).Draw(t, "from")
			r.Take = rapid.OneOf(rapid.Just(1000), rapid.IntRange(0, c.NumCtx+4)).Draw(t, "take")
		}
		maxTail := rapid.SampledFrom([]int{1, 3, 3, c.NumCtx / 2, c.NumCtx, c.NumCtx + 6}).Draw(t, "max_tail")
		minTail := 0
		if r.From < 0 {
			minTail = 1
		}
		r.Tail = rapid.SliceOfN(tok, minTail, max(maxTail, minTail)).Draw(t, "tail")
		r.Predict = rapid.OneOf(rapid.IntRange(1, 6), rapid.IntRange(c.NumCtx/2, 2*c.NumCtx+4)).Draw(t, "predict")
		r.Keep = rapid.OneOf(rapid.SampledFrom([]int{-1, 0, 0, c.NumCtx}), rapid.IntRange(0, c.NumCtx)).Draw(t, "keep")
		if rapid.IntRange(0, 9).Draw(t, "with_stop") < 3 {
			ns := rapid.IntRange(1, 2).Draw(t, "stops")
			for k := 0; k < ns; k++ {
				st := rapid.SliceOfN(tok, 1, 3).Draw(t, "stop")
				b := make([]byte, len(st))
				for j, x := range st {
					b[j] = byte('a' + x)
				}
				r.Stop = append(r.Stop, string(b))
			}
		}
		r.Gap = rapid.OneOf(rapid.SampledFrom([]int{0, 0, 1, 2}), rapid.IntRange(0, 12)).Draw(t, "gap")
		if rapid.IntRange(0, 9).Draw(t, "with_cancel") == 0 {
			r.Cancel = rapid.IntRange(1, 10).Draw(t, "cancel")
		}
		c.Reqs = append(c.Reqs, r)
	}
	return c
}

// ----------------------------------------------------------------------------------------- test

func TestC07History(t *testing.T) {
	const target = "TestC07History"
	rec := vfkit.Open(target)
	defer rec.Flush()
	var rc c07Case
	if rp, ok, err := vfkit.ReplayCase(target, &rc); ok {
		if err != nil {
			t.Fatalf("replay: %v", err)
		}
		// replays run the strict engine: the replay of a known finding must fail while the defect exists
		strict := rsKnown{}
		if os.Getenv("C07_REPLAY_LENIENT") != "" { // debugging aid only: replay with the assumed findings neutralised
			strict = rsKnown{shiftReset: rec.Known(c07KnownShiftReset), defragMerged: rec.Known(c07KnownDefrag), swaShiftHole: rec.Known(c07KnownSwaShift),
				swaUndersized: rec.Known(c07KnownSwaSize), swaResume: rec.Known(c07KnownSwaResume)}
		}
		info, err := c07Run(rc, strict)
		t.Logf("replay: %s", info.summary)
		if err != nil {
			slug, isKnown := strings.CutPrefix(rp.Expect, "known:")
			if isKnown && ((slug == c07KnownShiftReset && info.classesHave("remove_minus_one")) || (slug == c07KnownDefrag && info.classesHave("defrag_merged_move")) ||
				(slug == c07KnownSwaShift && info.classesHave("class_"+c07KnownSwaShift)) ||
				(slug == c07KnownSwaResume && rc.Kind == rsKindSWA && info.classesHave("fork")) ||
				(slug == c07KnownSwaSize && rc.Kind == rsKindSWA && rc.Parallel > 1 && strings.Contains(err.Error(), "could not find a kv cache slot"))) {
				rec.KnownHit(slug, err.Error())
				if rsAssumed(slug) { // development aid: the driver does not list the finding yet
					t.Logf("KNOWN-FINDING (assumed): property=C07 %v", err)
					return
				}
			}
			rec.Fail(target, rc, err.Error())
			t.Fatalf("C07 violated: %v", err)
		}
		return
	}
	honour := rsKnown{shiftReset: rec.Known(c07KnownShiftReset), defragMerged: rec.Known(c07KnownDefrag), swaShiftHole: rec.Known(c07KnownSwaShift),
		swaUndersized: rec.Known(c07KnownSwaSize), swaResume: rec.Known(c07KnownSwaResume)}
	rapid.Check(t, func(rt *rapid.T) {
		if rec.OverBudget() {
			return
		}
		c := c07Gen(rt)
		info, err := c07Run(c, honour)
		for _, e := range info.excluded {
			rec.Excluded(e)
		}
		rec.Case(c, info.nontrivial, info.classes...)
		if err != nil {
			rec.Fail(target, c, err.Error())
			rt.Fatalf("C07 violated: %v", err)
		}
	})
}

func (i c07Info) classesHave(s string) bool { return slices.Contains(i.classes, s) }

