package ollamarunner

// C14 — streamed text stops before stop sequences and is always whole UTF-8
// (see /verif/DESIGN.md section 3, "Engine runnersim" and "C14").
//
// A case is a script of token pieces (byte strings cut from a text at arbitrary byte offsets), a
// list of stop strings, whether the model ends with EOS, num_predict and a small runner
// configuration. The script is "generated" by rsModel in script mode behind the REAL completion
// HTTP handler (request decoding, sampler construction, NewSequence, LoadCacheSlot, NDJSON
// streaming) and the REAL Server.run loop; the harness only builds the Server literal, posts one
// request through httptest and reads the stream.
//
// Oracle (reference computed on the whole generated text), for valid UTF-8 scripts:
//   - the concatenated stream is a prefix of the generated text;
//   - if some stop string is complete after piece j (first such j), generation ends there, the
//     output contains no stop string and is immediately followed, in the generated text, by a stop
//     string; else the output is everything up to EOS / the limit minus an incomplete last character;
//   - every streamed piece is valid UTF-8, non-empty and contains no stop string;
//   - done_reason is "length" iff the limit ended generation ("stop" for a stop string AND for
//     EOS: the API has one value for both), eval_count equals the limit then;
//   - exactly one final message, it is the last line, HTTP 200;
//   - (no context shift) the slot's record afterwards is prompt ++ generated tokens cut where the
//     output was cut: no token of a removed stop string stays recorded.
// For scripts that are not valid UTF-8 the runner deliberately drops bytes ("ensure we never output
// invalid Unicode"), so only this is asserted: every streamed piece is valid UTF-8, the stream
// starts with the part of the expected output that precedes the first invalid byte, it is exact
// when the stop string is complete before the first invalid byte, one final message, reason
// "length" only at the limit.

import (
	"bytes"
	"context"
	"encoding/json"
	"errors"
	"fmt"
	"net/http"
	"net/http/httptest"
	"slices"
	"strconv"
	"strings"
	"testing"
	"testing/synctest"
	"time"
	"unicode/utf8"

	"pgregory.net/rapid"
	"verif.local/vfkit"

	"github.com/ollama/ollama/api"
	"github.com/ollama/ollama/llm"
	"github.com/ollama/ollama/model/input"
	"github.com/ollama/ollama/runner/common"
)

// Known finding: common.FindStop returns the first stop string in LIST order that occurs in the
// pending text, not the one that occurs first; when one piece completes two stop strings the
// output is cut at the later one and still contains the earlier one.
const c14KnownListOrder = "findstop-list-order"

// Known finding: when a stop string is found, processBatch shortens the slot's record by the
// number of withheld pieces that were dropped; after context shifts the record can be shorter
// than that number (many withheld pieces, e.g. tokens that decode to "", in a small context):
// the length goes negative, seq.cache.Inputs[:tokenLen] panics and Server.run takes the runner down.
const c14KnownNegTrim = "stop-trim-negative-length"

// c14B is a byte string that survives JSON (bytes outside printable ASCII and '%' as %XX).
type c14B string

func (b c14B) MarshalJSON() ([]byte, error) {
	var sb strings.Builder
	for i := 0; i < len(b); i++ {
		if c := b[i]; c < 0x20 || c > 0x7e || c == '%' || c == '"' || c == '\\' {
			fmt.Fprintf(&sb, "%%%02X", c)
		} else {
			sb.WriteByte(c)
		}
	}
	return json.Marshal(sb.String())
}

func (b *c14B) UnmarshalJSON(data []byte) error {
	var s string
	if err := json.Unmarshal(data, &s); err != nil {
		return err
	}
	var out []byte
	for i := 0; i < len(s); i++ {
		if s[i] != '%' {
			out = append(out, s[i])
			continue
		}
		if i+3 > len(s) {
			return fmt.Errorf("bad escape in %q", s)
		}
		v, err := strconv.ParseUint(s[i+1:i+3], 16, 8)
		if err != nil {
			return fmt.Errorf("bad escape in %q", s)
		}
		out = append(out, byte(v))
		i += 2
	}
	*b = c14B(out)
	return nil
}

type c14Case struct {
	Pieces    []c14B `json:"pieces"`
	Stops     []c14B `json:"stops"`
	EOS       bool   `json:"eos"`     // the model predicts EOS after the last piece
	Predict   int    `json:"predict"` // num_predict; <= 0 = unlimited (then EOS is forced)
	NumCtx    int    `json:"num_ctx"`
	Batch     int    `json:"batch"`
	PromptLen int    `json:"prompt_len"`
	Keep      int    `json:"keep"`

	// slow client: the script is Body x Repeat followed by Pieces (hundreds of cheap pieces), and the
	// client stops reading after StallAfter chunks until the runner has nothing left it can do
	// (blocked on the full response buffer, or done); then it reads everything that is sent.
	Body       []c14B `json:"body,omitempty"`
	Repeat     int    `json:"repeat,omitempty"`
	Slow       bool   `json:"slow,omitempty"`
	StallAfter int    `json:"stall_after,omitempty"`
}

// c14SlowWriter is the response writer of a client that stops reading for a while: from the
// StallAfter-th chunk on, Write blocks (as it does on a full TCP send buffer) until the gate opens.
type c14SlowWriter struct {
	*httptest.ResponseRecorder
	writes, stallAfter int
	gate               chan struct{}
}

func (w *c14SlowWriter) Write(b []byte) (int, error) {
	if w.writes >= w.stallAfter {
		<-w.gate
	}
	w.writes++
	return w.ResponseRecorder.Write(b)
}

type c14Info struct {
	nontrivial bool
	classes    []string
	excluded   bool // skipped: falls into the FindStop list-order finding
	excluded2  bool // run with a large context instead: falls into the negative stop-trim finding
	summary    string
}

type c14Line struct {
	Content    string `json:"content"`
	Done       bool   `json:"done"`
	DoneReason int    `json:"done_reason"`
	PromptEval int    `json:"prompt_eval_count"`
	EvalCount  int    `json:"eval_count"`
}

func c14ContainsAny(s string, stops []string) (string, bool) {
	for _, st := range stops {
		if strings.Contains(s, st) {
			return st, true
		}
	}
	return "", false
}

func c14StartsWithAny(s string, stops []string) bool {
	for _, st := range stops {
		if strings.HasPrefix(s, st) {
			return true
		}
	}
	return false
}

// c14SplitIncomplete: s = complete ++ rest where complete is valid UTF-8 and rest is empty or the
// beginning of one multi-byte character; ok is false if s is not of that form (invalid UTF-8).
func c14SplitIncomplete(s string) (complete string, ok bool) {
	n := c14ValidPrefixLen(s)
	rest := s[n:]
	if rest == "" || !utf8.FullRuneInString(rest) {
		return s[:n], true
	}
	return "", false
}

func c14ValidPrefixLen(s string) int {
	n := 0
	for n < len(s) {
		r, size := utf8.DecodeRuneInString(s[n:])
		if r == utf8.RuneError && size <= 1 {
			break
		}
		n += size
	}
	return n
}

const c14Filler = "~#~" // piece of the token the model predicts if it is asked for more than the script

// c14Serve runs one completion request through the real handler and run loop.
//
// With c.Slow it must be called inside a testing/synctest bubble: synctest.Wait() is then the exact
// "nothing can move any more" signal (run loop blocked on the full response buffer or idle, handler
// blocked in Write) at which the stalled client starts reading again — no sleep, no wall clock; the
// 60 s watchdogs below run on the bubble's virtual clock there, i.e. they fire exactly on a deadlock.
func c14Serve(c c14Case, pieces []string, stops []string, blockedAtRelease *bool) (lines []c14Line, status int, slotTokens []int32, shifts int, err error) {
	n := len(pieces)
	table := make([]string, n+3) // 0: prompt token, 1..n: script, n+1: EOS, n+2: filler
	table[0] = "P"
	copy(table[1:], pieces)
	table[n+1] = ""
	table[n+2] = c14Filler
	encode := func(s string) []int32 { return make([]int32, len(s)) }
	sim, err := rsNewSim(rsConfig{Parallel: 1, NumCtx: c.NumCtx, Batch: c.Batch, Kind: rsKindCausal, Layers: 1, Pad: 1, MaskPad: 1},
		n+3, table, int32(n+1), encode, rsKnown{})
	if err != nil {
		return nil, 0, nil, 0, fmt.Errorf("harness: %v", err)
	}
	s := sim.s
	sampled := 0
	sim.m.hook = func(batch input.Batch, tokens []int32, vis [][]rsEntry) ([]int32, error) {
		out := make([]int32, len(batch.Outputs))
		for o := range out {
			switch {
			case sampled < n:
				out[o] = int32(1 + sampled)
			case c.EOS && sampled == n:
				out[o] = int32(n + 1)
			default:
				out[o] = int32(n + 2)
			}
			sampled++
		}
		return out, nil
	}

	ctx, cancel := context.WithCancel(context.Background())
	runDone := make(chan any, 1)
	go func() {
		defer func() { runDone <- recover() }()
		s.run(ctx)
	}()

	opts := api.Options{NumPredict: c.Predict, NumKeep: c.Keep, Stop: stops, Temperature: 0, Seed: -1}
	body, err := json.Marshal(llm.CompletionRequest{Prompt: strings.Repeat("P", c.PromptLen), Options: &opts})
	if err != nil {
		cancel()
		return nil, 0, nil, 0, fmt.Errorf("harness: %v", err)
	}
	rr := httptest.NewRecorder()
	var w http.ResponseWriter = rr
	var slow *c14SlowWriter
	if c.Slow {
		slow = &c14SlowWriter{ResponseRecorder: rr, stallAfter: c.StallAfter, gate: make(chan struct{})}
		w = slow
	}
	req := httptest.NewRequest(http.MethodPost, "/completion", bytes.NewReader(body))
	handlerDone := make(chan any, 1)
	go func() {
		defer func() { handlerDone <- recover() }()
		s.completion(w, req)
	}()
	if slow != nil {
		synctest.Wait() // every goroutine of the bubble is durably blocked (or gone)
		*blockedAtRelease = s.seqs[0] != nil
		close(slow.gate)
	}
	select {
	case p := <-handlerDone:
		if p != nil {
			cancel()
			return nil, 0, nil, 0, fmt.Errorf("the completion handler panicked: %v", p)
		}
	case p := <-runDone:
		cancel()
		return nil, 0, nil, 0, fmt.Errorf("Server.run ended while the request was being served: panic %v", p)
	case <-time.After(60 * time.Second):
		cancel()
		return nil, 0, nil, 0, fmt.Errorf("no final message: the handler has not returned after 60 s although the script ends after %d tokens", n+1)
	}

	// stop the run loop: it only looks at ctx between batches and sleeps in cond.Wait while there
	// is no sequence, so hand it one that is already past its limit
	cancel()
	s.mu.Lock()
	free := s.seqs[0] == nil && !s.cache.slots[0].InUse
	if free && s.seqsSem.TryAcquire(1) {
		slot := &s.cache.slots[0]
		slotTokens = rsTokens(slot.Inputs)
		slot.InUse = true
		s.seqs[0] = &Sequence{numPredict: 1, numPredicted: 1, cache: slot, pendingResponses: []string{},
			responses: make(chan string, 1), embedding: make(chan []float32, 1), quit: make(chan bool, 1)}
		s.cond.Signal()
	} else {
		err = errors.New("the request has ended but its sequence entry, cache slot or semaphore unit is still taken")
	}
	s.mu.Unlock()
	if err == nil {
		select {
		case p := <-runDone:
			if p != nil {
				err = fmt.Errorf("Server.run panicked: %v", p)
			}
		case <-time.After(60 * time.Second):
			err = errors.New("harness: run loop did not stop")
		}
	}
	if err != nil {
		return nil, 0, nil, 0, err
	}

	status = rr.Code
	dec := json.NewDecoder(rr.Body)
	for dec.More() {
		var l c14Line
		if e := dec.Decode(&l); e != nil {
			return nil, status, nil, 0, fmt.Errorf("response stream is not NDJSON: %v (body %q)", e, rr.Body.String())
		}
		lines = append(lines, l)
	}
	return lines, status, slotTokens, sim.spy.shiftsOK, nil
}

func c14Run(t *testing.T, c c14Case, known func(string) bool) (info c14Info, err error) {
	cls := map[string]bool{}
	defer func() {
		for k := range cls {
			info.classes = append(info.classes, k)
		}
		slices.Sort(info.classes)
		info.nontrivial = cls["stop_straddles_pieces"] || cls["multibyte_straddles_pieces"]
		if err != nil && len(err.Error()) > 1400 { // long scripts: keep both ends of the message
			m := err.Error()
			err = fmt.Errorf("%s … [%d bytes] … %s", m[:700], len(m)-1200, m[len(m)-500:])
		}
	}()
	// normalise
	c.NumCtx = max(c.NumCtx, 4)
	c.Batch = max(c.Batch, 1)
	c.PromptLen = min(max(c.PromptLen, 1), c.NumCtx)
	c.Keep = min(max(c.Keep, 0), c.NumCtx)
	var pieces []string
	if len(c.Body) > 0 {
		for r := 0; r < min(max(c.Repeat, 0), 400); r++ {
			for _, p := range c.Body {
				pieces = append(pieces, string(p))
			}
		}
	}
	for _, p := range c.Pieces {
		pieces = append(pieces, string(p))
	}
	c.StallAfter = max(c.StallAfter, 0)
	var stops []string
	for _, s := range c.Stops {
		if !utf8.ValidString(string(s)) {
			return info, fmt.Errorf("harness: stop %q is not valid UTF-8 (cannot be sent as JSON)", string(s))
		}
		stops = append(stops, string(s))
	}
	n := len(pieces)
	if c.Predict <= 0 {
		c.EOS = true
	} else if !c.EOS {
		c.Predict = min(c.Predict, n) // without EOS the limit must end the script
		if c.Predict == 0 {
			c.EOS = true
		}
	}
	unlimited := c.Predict <= 0
	k := n
	if !unlimited {
		k = min(n, c.Predict)
	}
	full := strings.Join(pieces[:k], "")
	_, valid := c14SplitIncomplete(full)
	valid = valid && !strings.Contains(full, "\uFFFD") && !strings.Contains(full, c14Filler)
	hasEmptyStop := slices.Contains(stops, "")
	if !valid {
		cls["invalid_utf8_script"] = true
	}

	// reference: first piece after which a stop string is complete
	stopAt, sj := -1, ""
	for j := 1; j <= k && stopAt < 0; j++ {
		sj = strings.Join(pieces[:j], "")
		if _, ok := c14ContainsAny(sj, stops); ok {
			stopAt = j
		}
	}
	wantReason := "stop"
	endTokens := k // pieces generated
	switch {
	case stopAt >= 0:
		endTokens = stopAt
		cls["stop_hit"] = true
	case c.EOS && (unlimited || n < c.Predict):
		cls["eos_hit"] = true
	default:
		wantReason = "length"
		cls["limit_hit"] = true
	}
	generated := strings.Join(pieces[:endTokens], "")

	// classes about the script
	off := 0
	for _, p := range pieces[:endTokens] {
		off += len(p)
		if off < len(generated) && !utf8.RuneStart(generated[off]) && valid {
			cls["multibyte_straddles_pieces"] = true
		}
	}
	if stopAt >= 0 {
		// does the occurrence that completes at piece stopAt start before that piece?
		before := len(generated) - len(pieces[stopAt-1])
		for _, st := range stops {
			if i := strings.Index(generated, st); i >= 0 && i < before && i+len(st) > before {
				cls["stop_straddles_pieces"] = true
			}
		}
		// the known finding: the first stop in list order is not where the text must be cut
		listFirst, _ := c14ContainsAny(generated, stops)
		li := strings.Index(generated, listFirst)
		if _, bad := c14ContainsAny(generated[:li], stops); bad {
			cls["class_"+c14KnownListOrder] = true
			if known(c14KnownListOrder) {
				info.excluded = true
				return info, nil
			}
		}
	}
	if len(stops) > 0 && stopAt < 0 {
		for _, st := range stops {
			for i := 1; i < len(st); i++ {
				if strings.Contains(generated, st[:i]) {
					cls["stop_prefix_occurs_without_stop"] = true
				}
			}
		}
	}

	if stopAt >= 0 {
		// the other known finding: more pieces withheld when the stop string completes than inputs
		// are recorded at that moment (only possible after context shifts). Predicate only, never an
		// oracle: follow the runner's own withholding rules and the shift arithmetic.
		pending, recorded := 0, c.PromptLen
		keep := min(c.Keep, c.NumCtx-1)
		var joined string
		for i := 0; i < stopAt-1; i++ {
			if i > 0 { // token i was evaluated to predict token i+1
				if recorded+1 > c.NumCtx {
					recorded -= max((c.NumCtx-keep)/2, 1)
				}
				recorded++
			}
			pending++
			joined += pieces[i]
			if !common.ContainsStopSuffix(joined, stops) && !common.IncompleteUnicode(joined) {
				pending, joined = 0, ""
			}
		}
		if stopAt > 1 {
			if recorded+1 > c.NumCtx {
				recorded -= max((c.NumCtx-keep)/2, 1)
			}
			recorded++
		}
		if recorded-(pending+1) < 0 {
			cls["class_"+c14KnownNegTrim] = true
			if known(c14KnownNegTrim) {
				info.excluded2 = true
				c.NumCtx = 2048 // steer around it: same script, no context shift
			}
		}
	}

	var lines []c14Line
	var status, shifts int
	var slotTokens []int32
	if c.Slow {
		cls["slow_client"] = true
		blocked := false
		synctest.Test(t, func(*testing.T) {
			lines, status, slotTokens, shifts, err = c14Serve(c, pieces, stops, &blocked)
		})
		if blocked {
			cls["slow_client_runner_blocked_on_full_buffer"] = true
		} else if err == nil && len(lines) > c.StallAfter {
			cls["slow_client_generation_ended_during_stall"] = true
		}
	} else {
		lines, status, slotTokens, shifts, err = c14Serve(c, pieces, stops, nil)
	}
	if err != nil {
		return info, err
	}
	if shifts > 0 {
		cls["context_shift"] = true
	}
	info.summary = fmt.Sprintf("%d pieces, %d stops, predict %d, eos %v -> %d lines", n, len(stops), c.Predict, c.EOS, len(lines))

	// ---- oracle
	if status != http.StatusOK {
		return info, fmt.Errorf("HTTP status %d", status)
	}
	finals := 0
	var out string
	var final c14Line
	for i, l := range lines {
		if l.Done {
			finals++
			final = l
			if i != len(lines)-1 {
				return info, fmt.Errorf("final message is line %d of %d", i+1, len(lines))
			}
			if l.Content != "" {
				return info, fmt.Errorf("final message carries content %q", l.Content)
			}
			continue
		}
		if l.Content == "" {
			return info, fmt.Errorf("line %d streams an empty piece", i+1)
		}
		if !utf8.ValidString(l.Content) || strings.Contains(l.Content, "\uFFFD") {
			return info, fmt.Errorf("streamed piece %q (line %d) is not valid UTF-8 (generated text %q)", l.Content, i+1, generated)
		}
		if st, bad := c14ContainsAny(l.Content, stops); bad && valid && !hasEmptyStop {
			return info, fmt.Errorf("streamed piece %q (line %d) contains stop string %q", l.Content, i+1, st)
		}
		out += l.Content
	}
	if finals != 1 {
		return info, fmt.Errorf("%d final messages in %d lines", finals, len(lines))
	}
	gotReason := llm.DoneReason(final.DoneReason).String()
	what := fmt.Sprintf("pieces %q, stops %q, num_predict %d, eos %v", pieces, stops, c.Predict, c.EOS)
	if len(pieces) > 24 {
		what = fmt.Sprintf("%d pieces (%q x %d, then %q), stops %q, num_predict %d, eos %v", len(pieces), c.Body, c.Repeat, c.Pieces, stops, c.Predict, c.EOS)
	}
	if c.Slow {
		what += fmt.Sprintf(", client stalls after %d chunks until the runner cannot go on, then reads everything", c.StallAfter)
	}

	if hasEmptyStop && k > 0 {
		// "" occurs in any text: generation ends with the first token and nothing is returned
		cls["empty_stop_string"] = true
		if out != "" || gotReason != "stop" || final.EvalCount != 1 {
			return info, fmt.Errorf("%s: output %q, done_reason %q, eval_count %d; with an empty stop string: \"\", stop, 1", what, out, gotReason, final.EvalCount)
		}
		return info, nil
	}

	if !valid {
		// bytes are dropped on purpose; see the header
		firstBad := c14ValidPrefixLen(full)
		earliest, inValidPart := len(generated), false
		for _, st := range stops {
			if i := strings.Index(generated, st); i >= 0 {
				earliest = min(earliest, i)
				if i+len(st) <= firstBad {
					inValidPart = true
				}
			}
		}
		if gotReason == "length" && (unlimited || final.EvalCount != c.Predict) {
			return info, fmt.Errorf("%s: done_reason length with eval_count %d", what, final.EvalCount)
		}
		if !inValidPart {
			if expect := generated[:min(earliest, firstBad, len(generated))]; !strings.HasPrefix(out, expect) {
				return info, fmt.Errorf("%s: output %q does not start with %q, the beginning of the generated text up to the first stop string / invalid byte", what, out, expect)
			}
			return info, nil
		}
		cls["invalid_after_stop_only"] = true
		// a stop string is complete before the first invalid byte: the same claims as for valid text follow
	}

	if !strings.HasPrefix(generated, out) {
		return info, fmt.Errorf("%s: output %q is not a prefix of the generated text %q", what, out, generated)
	}
	if st, bad := c14ContainsAny(out, stops); bad {
		return info, fmt.Errorf("%s: output %q contains stop string %q", what, out, st)
	}
	if stopAt >= 0 {
		if !c14StartsWithAny(generated[len(out):], stops) {
			return info, fmt.Errorf("%s: generated text %q holds a stop string after piece %d, output %q does not end immediately before one", what, generated, stopAt, out)
		}
		earliest := len(generated)
		for _, st := range stops {
			if i := strings.Index(generated, st); i >= 0 {
				earliest = min(earliest, i)
			}
		}
		if len(out) != earliest {
			cls["cut_not_at_earliest_occurrence"] = true
		}
	} else if want, _ := c14SplitIncomplete(generated); out != want {
		return info, fmt.Errorf("%s: output %q, expected everything up to %s: %q", what, out, map[bool]string{true: "the limit", false: "EOS"}[wantReason == "length"], want)
	}
	if gotReason != wantReason {
		return info, fmt.Errorf("%s: done_reason %q, expected %q", what, gotReason, wantReason)
	}
	if wantReason == "length" && final.EvalCount != c.Predict {
		return info, fmt.Errorf("%s: done_reason length with eval_count %d, the limit is %d", what, final.EvalCount, c.Predict)
	}
	if final.PromptEval != c.PromptLen {
		return info, fmt.Errorf("%s: prompt_eval_count %d for a prompt of %d tokens", what, final.PromptEval, c.PromptLen)
	}

	// ---- the slot's record (only without context shift: a shift rewrites it)
	if shifts == 0 && valid {
		if len(slotTokens) < c.PromptLen {
			return info, fmt.Errorf("%s: slot records %d inputs, fewer than the prompt (%d)", what, len(slotTokens), c.PromptLen)
		}
		gen := slotTokens[c.PromptLen:]
		var rec string
		for i, t := range gen {
			if int(t) != i+1 {
				return info, fmt.Errorf("%s: slot records generated tokens %v, not a prefix of the script 1..%d", what, gen, n)
			}
			rec += pieces[i]
		}
		switch {
		case stopAt >= 0:
			if !strings.HasPrefix(out, rec) {
				return info, fmt.Errorf("%s: output %q, but the slot still records tokens %v = %q: a token of the removed stop string stays recorded", what, out, gen, rec)
			}
			if !slices.Contains(pieces[:endTokens], "") {
				// every piece non-empty: the record is exactly the tokens that lie entirely inside the output
				fit, l := 0, 0
				for fit < endTokens && l+len(pieces[fit]) <= len(out) {
					l += len(pieces[fit])
					fit++
				}
				fit = min(fit, endTokens-1) // the token that completed the stop string was never evaluated
				if len(gen) != fit {
					return info, fmt.Errorf("%s: output %q covers %d whole tokens, the slot records %d generated tokens", what, out, fit, len(gen))
				}
			}
		default:
			// EOS or limit: every generated token but the last sampled one has been evaluated
			wantRec := endTokens - 1
			if wantReason == "stop" {
				wantRec = endTokens // EOS was sampled after the last piece had been evaluated
			}
			if len(gen) != max(wantRec, 0) {
				return info, fmt.Errorf("%s: slot records %d generated tokens, expected %d", what, len(gen), wantRec)
			}
		}
	}
	return info, nil
}

// ------------------------------------------------------------------------------------ generator

var c14Atoms = []string{"a", "b", "c", " ", "ab", "é", "è", "日", "€", "本", "😀", "ß", "\n"}

func c14Gen(t *rapid.T) c14Case {
	var c c14Case
	atoms := rapid.SliceOfN(rapid.SampledFrom(c14Atoms), 0, 14).Draw(t, "atoms")
	text := strings.Join(atoms, "")
	invalid := rapid.IntRange(0, 9).Draw(t, "invalid") == 0
	if invalid {
		nb := rapid.IntRange(1, 3).Draw(t, "bad_bytes")
		for i := 0; i < nb; i++ {
			at := rapid.IntRange(0, len(text)).Draw(t, "bad_at")
			bad := rapid.SampledFrom([]string{"\xff", "\x80", "\xc3", "\xe6\x97", "\xf0\x9f", "\xc0\xaf", "\xed\xa0\x80"}).Draw(t, "bad")
			text = text[:at] + bad + text[at:]
		}
	}
	// cut at arbitrary byte offsets
	ncut := rapid.IntRange(0, min(len(text)+1, 10)).Draw(t, "cuts")
	cuts := make([]int, ncut)
	for i := range cuts {
		cuts[i] = rapid.IntRange(0, len(text)).Draw(t, "cut")
	}
	slices.Sort(cuts)
	if rapid.IntRange(0, 3).Draw(t, "dedup") > 0 {
		cuts = slices.Compact(cuts) // mostly no empty pieces
	}
	prev := 0
	for _, x := range cuts {
		c.Pieces = append(c.Pieces, c14B(text[prev:x]))
		prev = x
	}
	c.Pieces = append(c.Pieces, c14B(text[prev:]))
	if len(c.Pieces) > 1 && c.Pieces[0] == "" && rapid.Bool().Draw(t, "drop_empty_first") {
		c.Pieces = c.Pieces[1:]
	}

	// stop strings: pieces of the text at character boundaries, variations, prefixes of each other
	clean := strings.ToValidUTF8(strings.Join(atoms, ""), "")
	runes := []rune(clean)
	ns := rapid.SampledFrom([]int{0, 1, 1, 2, 2, 3}).Draw(t, "stops")
	for i := 0; i < ns; i++ {
		var st string
		switch kind := rapid.IntRange(0, 5).Draw(t, "stop_kind"); {
		case kind <= 2 && len(runes) > 0: // occurs in the text
			a := rapid.IntRange(0, len(runes)-1).Draw(t, "stop_from")
			l := rapid.IntRange(1, min(4, len(runes)-a)).Draw(t, "stop_len")
			st = string(runes[a : a+l])
		case kind == 3 && len(c.Stops) > 0: // extension / prefix of an earlier stop
			base := []rune(string(c.Stops[rapid.IntRange(0, len(c.Stops)-1).Draw(t, "stop_base")]))
			if len(base) > 1 && rapid.Bool().Draw(t, "stop_shorter") {
				st = string(base[rapid.IntRange(0, 1).Draw(t, "stop_drop_front"):])
				st = string([]rune(st)[:max(1, len([]rune(st))-1)])
			} else {
				st = string(base) + rapid.SampledFrom(c14Atoms).Draw(t, "stop_ext")
			}
		default: // probably not in the text, but sharing prefixes with it
			st = strings.Join(rapid.SliceOfN(rapid.SampledFrom(c14Atoms), 1, 3).Draw(t, "stop_atoms"), "")
		}
		if rapid.IntRange(0, 39).Draw(t, "empty_stop") == 0 {
			st = ""
		}
		c.Stops = append(c.Stops, c14B(st))
	}
	c.EOS = rapid.IntRange(0, 3).Draw(t, "eos") > 0
	total := len(c.Pieces)
	if rapid.IntRange(0, 23).Draw(t, "slow_client") == 0 {
		// a long, cheap script in front of the short one, and a client that falls behind
		c.Slow = true
		body := strings.Join(rapid.SliceOfN(rapid.SampledFrom([]string{"x", "y", "z", "xy", "é", "日", " "}), 1, 3).Draw(t, "body_atoms"), "")
		at := rapid.IntRange(0, len(body)).Draw(t, "body_cut")
		for _, p := range []string{body[:at], body[at:]} {
			if p != "" {
				c.Body = append(c.Body, c14B(p))
			}
		}
		c.Repeat = rapid.IntRange(100, 400).Draw(t, "body_pieces") / len(c.Body)
		total += c.Repeat * len(c.Body)
		c.StallAfter = rapid.OneOf(rapid.Just(0), rapid.IntRange(0, 40), rapid.IntRange(0, total)).Draw(t, "stall_after")
	}
	c.Predict = rapid.OneOf(rapid.SampledFrom([]int{-1, -1, 0}), rapid.IntRange(1, len(c.Pieces)+2)).Draw(t, "predict")
	if c.Slow && c.Predict > 0 {
		c.Predict += total - len(c.Pieces) - rapid.SampledFrom([]int{0, 0, 1, 50}).Draw(t, "limit_inside_body")
		c.Predict = max(c.Predict, 1)
	}
	c.NumCtx = rapid.SampledFrom([]int{4, 6, 8, 16, 64, 2048}).Draw(t, "num_ctx")
	c.Batch = rapid.SampledFrom([]int{1, 2, 8, 512}).Draw(t, "batch")
	c.PromptLen = rapid.IntRange(1, 4).Draw(t, "prompt_len")
	c.Keep = rapid.IntRange(0, 4).Draw(t, "keep")
	return c
}

// ----------------------------------------------------------------------------------------- test

func TestC14Stream(t *testing.T) {
	const target = "TestC14Stream"
	rec := vfkit.Open(target)
	defer rec.Flush()
	var rc c14Case
	if rp, ok, err := vfkit.ReplayCase(target, &rc); ok {
		if err != nil {
			t.Fatalf("replay: %v", err)
		}
		// replays run the strict oracle: the replay of a known finding must fail while the defect exists
		info, err := c14Run(t, rc, func(string) bool { return false })
		t.Logf("replay: %s %v", info.summary, info.classes)
		if err != nil {
			if slug, isKnown := strings.CutPrefix(rp.Expect, "known:"); isKnown && (slug == c14KnownListOrder || slug == c14KnownNegTrim) && slices.Contains(info.classes, "class_"+slug) {
				rec.KnownHit(slug, err.Error())
				if rsAssumed(slug) { // development aid: the driver does not list the finding yet
					t.Logf("KNOWN-FINDING (assumed): property=C14 %v", err)
					return
				}
			}
			rec.Fail(target, rc, err.Error())
			t.Fatalf("C14 violated: %v", err)
		}
		return
	}
	rapid.Check(t, func(rt *rapid.T) {
		if rec.OverBudget() {
			return
		}
		c := c14Gen(rt)
		info, err := c14Run(t, c, rec.Known)
		if info.excluded {
			rec.Excluded(c14KnownListOrder)
		}
		if info.excluded2 {
			rec.Excluded(c14KnownNegTrim)
		}
		rec.Case(c, info.nontrivial, info.classes...)
		if err != nil {
			rec.Fail(target, c, err.Error())
			rt.Fatalf("C14 violated: %v", err)
		}
	})
}
