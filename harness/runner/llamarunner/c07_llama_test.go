package llamarunner

// C07, llamarunner on a real model — prompt caching, slot reuse and context shifting never change
// what the model sees (engine llr, llr_engine_test.go).
//
// A case is a runner configuration (1-2 slots, num_ctx 8-32 per slot, batch 1-32, slot policy) and a
// history of completion requests served by ONE real llamarunner.Server over llama.cpp's KV cache:
// prompts are new texts or prefixes of an earlier request's prompt ++ returned text plus new
// characters (so LoadCacheSlot finds common prefixes, erases the rest with KvCacheSeqRm, forks
// slots with KvCacheSeqCp under the multi-user policy), num_predict runs past num_ctx (so
// ShiftCacheSlot removes and re-positions cache entries with KvCacheSeqRm/KvCacheSeqAdd), stop
// strings cut the record, a request may start while the previous one is still generating. At the
// end every slot that records something is probed by a request that reuses all of it.
//
// Model kind "rand": every tensor pseudo-random, ONE block, greedy sampling (temperature 0): the next
// token is the argmax of a function of every (token, position) pair the KV cache holds for the
// sequence. One block on purpose: K and V of a token then depend on the token and its position
// only, so a cache entry kept across a context shift (K re-rotated by llama.cpp) equals the entry a
// fresh evaluation of the shortened input computes, and "a fresh runner with an empty cache on the
// same effective input" is exactly defined (with two blocks the second block's entries remember
// the discarded tokens, as they do in production).
//
// Oracle: differential against llrRefSeq — no runner at all: the harness keeps the effective
// input itself (prompt truncation and the shift arithmetic as documented in runner.go / cache.go:
// keep num_keep (+1 for BOS, at most num_ctx-1) inputs, discard max((num_ctx-keep)/2, 1)),
// evaluates it from scratch on a llama.cpp context of its own and takes the argmax of
// output.weight x hidden state computed in Go. Returned text, done_reason, eval_count and
// prompt_eval_count must be what that generation gives, cut at the first stop string or the limit.
// Floating point: the runner's cache holds f16 K entries that a shift re-rotates (rounded twice);
// the reference knows every step's margin (best - second logit) and a request is compared only up
// to its first step whose margin is below a tolerance (0.05 while no shift has happened on the
// server, 0.3 afterwards; measured logit deviations: about 1e-5 and <= 0.02) - counted, never failed.

import (
	"fmt"
	"net/http"
	"net/http/httptest"
	"os"
	"slices"
	"strings"
	"sync"
	"testing"
	"time"
	"unicode/utf8"

	"pgregory.net/rapid"
	"verif.local/vfkit"

	"github.com/ollama/ollama/api"
	"github.com/ollama/ollama/llm"
)

type c07rReq struct {
	From    int      `json:"from"`              // < 0: new prompt; else a prefix of prompt ++ returned text of finished request From % finished
	Take    int      `json:"take,omitempty"`    // characters of it that are kept (mod length+1)
	Tail    []int    `json:"tail,omitempty"`    // new characters appended (indices into llrGenChars, mod)
	Predict int      `json:"predict"`           // num_predict, 1..
	Keep    int      `json:"keep"`              // num_keep
	Stops   []string `json:"stops,omitempty"`   // stop strings over llrGenChars
	Overlap bool     `json:"overlap,omitempty"` // start while the previous request is still being served (after its first chunk)
}

type c07rCase struct {
	Model     int       `json:"model"` // seed of the weights, 1..3
	NumCtx    int       `json:"num_ctx"`
	Batch     int       `json:"batch"`
	Parallel  int       `json:"parallel"`
	MultiUser bool      `json:"multi_user"`
	Reqs      []c07rReq `json:"reqs"`
}

type c07rInfo struct {
	nontrivial bool
	classes    []string
	summary    string
}

const (
	c07rTolNoShift = 0.05
	c07rTolShift   = 0.3
)

// Known finding: under the multi-user slot policy findBestCacheSlot forks a slot with
// KvCacheSeqCp, which in llama.cpp makes both sequences share the copied cells (a cell has ONE
// position); a later context shift of either slot (KvCacheSeqRm + KvCacheSeqAdd) re-positions the
// shared cells for the other slot as well: that slot's cache no longer corresponds to its record.
// While listed, requests on a multi-user server with >= 2 slots are cut so that no context shift
// happens (forks and their reuse are still generated; shifts are still generated elsewhere).
const c07rKnownSharedShift = "llama-shift-moves-cells-shared-with-forked-slot"

// c07rExpect is what the reference generation gives for one request.
type c07rExpect struct {
	prompt     []int
	promptEval int
	tokens     []int     // sampled tokens in order (the last one may be EOS)
	margins    []float64 // margin of every sampling step
	shiftedAt  []bool    // a context shift had happened (in this request) before that step
	text       string    // pieces of the sampled tokens (without EOS)
	out        string
	reason     string
	truncated  bool
	shifts     int
}

// c07rReference plays the request on the effective input kept by the harness.
func c07rReference(rs *llrRefSeq, numCtx int, prompt string, r c07rReq) (x c07rExpect, err error) {
	m := rs.ref.model
	if x.prompt, err = m.Tokenize(prompt, true, true); err != nil {
		return x, fmt.Errorf("harness: %v", err)
	}
	if len(x.prompt) != 1+utf8.RuneCountInString(prompt) || x.prompt[0] != llrTokBOS {
		return x, fmt.Errorf("harness: prompt %q is tokens %v", prompt, x.prompt)
	}
	keep := r.Keep
	if keep < 0 {
		keep = len(x.prompt)
	}
	keep = min(keep+1, numCtx-1) // the runner adds one for BOS and leaves at least one input to discard
	rec := slices.Clone(x.prompt)
	if len(rec) > numCtx {
		discard := len(rec) - numCtx
		rec = append(slices.Clone(rec[:keep]), rec[keep+discard:]...)
		x.truncated = true
	}
	x.promptEval = len(rec)
	for {
		tok, margin, err := rs.next(rec)
		if err != nil {
			return x, err
		}
		x.tokens, x.margins, x.shiftedAt = append(x.tokens, tok), append(x.margins, margin), append(x.shiftedAt, x.shifts > 0)
		if m.TokenIsEog(tok) {
			x.out, x.reason = x.text, "stop"
			return x, nil
		}
		x.text += m.TokenToPiece(tok)
		first := -1
		for _, st := range r.Stops {
			if i := strings.Index(x.text, st); i >= 0 && (first < 0 || i < first) {
				first = i
			}
		}
		if first >= 0 {
			x.out, x.reason = x.text[:first], "stop"
			return x, nil
		}
		if len(x.tokens) >= r.Predict {
			x.out, x.reason = x.text, "length"
			return x, nil
		}
		if len(rec)+1 > numCtx {
			discard := max((numCtx-keep)/2, 1) - (numCtx - len(rec))
			rec = append(slices.Clone(rec[:keep]), rec[keep+discard:]...)
			x.shifts++
		}
		rec = append(rec, tok)
	}
}

type c07rResult struct {
	lines  []llrLine
	status int
	err    error
}

// c07rFirstWrite tells the harness when the first chunk of a response has been written.
type c07rFirstWrite struct {
	*httptest.ResponseRecorder
	once  sync.Once
	first chan struct{}
}

func (w *c07rFirstWrite) Write(b []byte) (int, error) {
	w.once.Do(func() { close(w.first) })
	return w.ResponseRecorder.Write(b)
}

type c07rLive struct {
	idx    int
	prompt string
	req    c07rReq
	want   c07rExpect
	first  chan struct{}
	done   chan c07rResult
	shiftB bool // a shift had happened on the server before this request started (or happens in an overlapping one)
}

func c07rRun(c c07rCase, known func(string) bool, excluded func(string), survey func(margin float64)) (info c07rInfo, err error) {
	cls := map[string]bool{}
	defer func() {
		for k := range cls {
			info.classes = append(info.classes, k)
		}
		slices.Sort(info.classes)
		info.nontrivial = cls["llrc07_shift"] || cls["llrc07_prefix_reused"] && len(c.Reqs) > 1
	}()
	// ---- normalise
	cfg := llrConfig{NumCtx: llrNearest(c.NumCtx, []int{8, 10, 12, 16, 32}), Batch: llrNearest(c.Batch, []int{1, 2, 4, 32}),
		Parallel: llrNearest(c.Parallel, []int{1, 2}), MultiUser: c.MultiUser}
	spec := llrModelSpec{Kind: "rand", Seed: uint64(min(max(c.Model, 1), 3)), Layers: 1}
	if len(c.Reqs) == 0 || len(c.Reqs) > 12 {
		return info, nil
	}
	if cfg.MultiUser {
		cls["llrc07_multiuser_policy"] = true
	}
	e, err := llrGet()
	if err != nil {
		return info, fmt.Errorf("harness: %v", err)
	}
	rs, err := e.refSeq(spec)
	if err != nil {
		return info, fmt.Errorf("harness: %v", err)
	}
	ls, err := e.server(spec, cfg)
	if err != nil {
		return info, fmt.Errorf("harness: %v", err)
	}
	stopped := false
	defer func() {
		if !stopped {
			if _, e2 := ls.stop(); e2 != nil && err == nil {
				err = e2
			}
		}
	}()

	type fin struct{ prompt, out string }
	var finished []fin
	var inflight []*c07rLive
	serverShifted := false
	ambiguous := 0

	check := func(l *c07rLive, res c07rResult) error {
		what := fmt.Sprintf("request %d (prompt %q = %d tokens, num_predict %d, num_keep %d, stops %q; num_ctx %d, batch %d, parallel %d, multiuser %v)",
			l.idx, l.prompt, len(l.want.prompt), l.req.Predict, l.req.Keep, l.req.Stops, cfg.NumCtx, cfg.Batch, cfg.Parallel, cfg.MultiUser)
		if res.err != nil {
			return fmt.Errorf("%s: %v", what, res.err)
		}
		if res.status != 200 {
			return fmt.Errorf("%s: HTTP status %d", what, res.status)
		}
		var out string
		var final *llrLine
		for i := range res.lines {
			if res.lines[i].Done {
				if final != nil || i != len(res.lines)-1 {
					return fmt.Errorf("%s: final message is line %d of %d", what, i+1, len(res.lines))
				}
				final = &res.lines[i]
			}
			out += res.lines[i].Content
		}
		if final == nil {
			return fmt.Errorf("%s: no final message in %d lines", what, len(res.lines))
		}
		finished = append(finished, fin{l.prompt, out})
		w := l.want
		// first sampling step that is too close to call
		amb := -1
		for i, mg := range w.margins {
			tol := c07rTolNoShift
			if l.shiftB || w.shiftedAt[i] {
				tol = c07rTolShift
			}
			if mg < tol {
				amb = i
				break
			}
		}
		if survey != nil {
			// development aid: how small was the smallest margin up to the first diverging character?
			got, exp := []rune(out), []rune(w.out)
			for i := 0; i < len(got) || i < len(exp); i++ {
				if i >= len(got) || i >= len(exp) || got[i] != exp[i] {
					mm := 1e9
					for j := 0; j <= i && j < len(w.margins); j++ {
						mm = min(mm, w.margins[j])
					}
					survey(mm)
					break
				}
			}
			return nil
		}
		if w.truncated {
			cls["llrc07_prompt_truncated"] = true
		}
		if final.PromptEval != w.promptEval {
			return fmt.Errorf("%s: prompt_eval_count %d, expected %d", what, final.PromptEval, w.promptEval)
		}
		if amb >= 0 {
			ambiguous++
			cls["llrc07_compared_up_to_a_near_tie"] = true
			safe := ""
			for _, t := range w.tokens[:amb] {
				safe += rs.ref.model.TokenToPiece(t)
			}
			for cut := true; cut && safe != ""; { // a stop string may begin in the safe part and end after it
				cut = false
				for _, st := range l.req.Stops {
					for i := 1; i < len(st); i++ {
						if strings.HasSuffix(safe, st[:i]) {
							safe, cut = safe[:len(safe)-i], true
						}
					}
				}
			}
			if !strings.HasPrefix(out, safe) {
				return fmt.Errorf("%s: returned %q; a fresh evaluation of the same effective input generates %q first (margins %.3v)", what, out, safe, w.margins[:amb])
			}
			return nil
		}
		got := llm.DoneReason(final.DoneReason).String()
		if out != w.out || got != w.reason || final.EvalCount != len(w.tokens) {
			return fmt.Errorf("%s: returned %q, done_reason %q, eval_count %d; a fresh evaluation of the same effective input generates %q (%d shifts), returns %q, %q, %d (smallest margin %.3f)",
				what, out, got, final.EvalCount, w.text, w.shifts, w.out, w.reason, len(w.tokens), slices.Min(w.margins))
		}
		return nil
	}
	wait := func(l *c07rLive) error {
		select {
		case res := <-l.done:
			return check(l, res)
		case p := <-ls.runDone:
			ls.taint()
			ls.runDone <- p
			return fmt.Errorf("Server.run ended while request %d (prompt %q) was being served: panic %v", l.idx, l.prompt, p)
		case <-time.After(60 * time.Second):
			ls.taint()
			return fmt.Errorf("request %d (prompt %q): no final message after 60 s", l.idx, l.prompt)
		}
	}
	drain := func(keepN int) error {
		for len(inflight) > keepN {
			l := inflight[0]
			inflight = inflight[1:]
			if err := wait(l); err != nil {
				return err
			}
		}
		return nil
	}
	noShift := cfg.MultiUser && cfg.Parallel > 1 && known(c07rKnownSharedShift)
	launch := func(idx int, prompt string, r c07rReq) error {
		want, err := c07rReference(rs, cfg.NumCtx, prompt, r)
		if err != nil {
			return err
		}
		if want.shifts > 0 && cfg.MultiUser && cfg.Parallel > 1 {
			cls["class_"+c07rKnownSharedShift] = true
			if noShift {
				// the n-th sampled token is appended only if a further one is wanted: no shift up to num_ctx - prompt + 1 tokens
				excluded(c07rKnownSharedShift)
				r.Predict = min(r.Predict, cfg.NumCtx-want.promptEval+1)
				if want, err = c07rReference(rs, cfg.NumCtx, prompt, r); err != nil {
					return err
				}
				if want.shifts > 0 {
					return fmt.Errorf("harness: request still shifts with num_predict %d", r.Predict)
				}
			}
		}
		l := &c07rLive{idx: idx, prompt: prompt, req: r, want: want, first: make(chan struct{}), done: make(chan c07rResult, 1), shiftB: serverShifted}
		if want.shifts > 0 {
			cls["llrc07_shift"] = true
			serverShifted = true
			for _, o := range inflight { // shifts re-rotate cells; an overlapping request may share them (forked slots)
				o.shiftB = true
			}
		}
		if want.reason == "stop" && len(want.out) < len(want.text) {
			cls["llrc07_stop_hit"] = true
		}
		opts := api.Options{NumPredict: r.Predict, NumKeep: r.Keep, Stop: r.Stops, Seed: 1, Temperature: 0, TopK: 0, TopP: 1, MinP: 0, TypicalP: 1, RepeatPenalty: 1, RepeatLastN: 0}
		body, err := llrBody(llrRequest{Prompt: prompt, Options: opts})
		if err != nil {
			return err
		}
		w := &c07rFirstWrite{ResponseRecorder: httptest.NewRecorder(), first: l.first}
		go func() {
			var res c07rResult
			defer func() {
				if p := recover(); p != nil {
					res.err = fmt.Errorf("the completion handler panicked: %v", p)
				}
				w.once.Do(func() { close(l.first) })
				l.done <- res
			}()
			ls.s.completion(w, httptest.NewRequest(http.MethodPost, "/completion", body))
			res.lines, res.status, res.err = llrDecodeLines(w.ResponseRecorder)
		}()
		inflight = append(inflight, l)
		return nil
	}

	for i, r := range c.Reqs {
		r.Predict = min(max(r.Predict, 1), 80)
		r.Keep = min(max(r.Keep, -1), 40)
		if len(r.Stops) > 2 {
			r.Stops = r.Stops[:2]
		}
		for _, st := range r.Stops {
			if st == "" || strings.Trim(st, strings.Join(llrGenChars, "")) != "" {
				return info, fmt.Errorf("harness: stop string %q", st)
			}
		}
		if r.Overlap && cfg.Parallel > 1 && len(inflight) > 0 {
			// the previous request has been admitted and has produced its first chunk (or has ended)
			if err := drain(cfg.Parallel - 1); err != nil {
				return info, err
			}
			if len(inflight) > 0 {
				select {
				case <-inflight[len(inflight)-1].first:
					cls["llrc07_parallel_overlap"] = true
				case p := <-ls.runDone:
					ls.taint()
					ls.runDone <- p
					return info, fmt.Errorf("Server.run ended while request %d (prompt %q) was being served: panic %v", inflight[len(inflight)-1].idx, inflight[len(inflight)-1].prompt, p)
				case <-time.After(60 * time.Second):
					return info, fmt.Errorf("request %d: no first chunk after 60 s", inflight[len(inflight)-1].idx)
				}
			}
		} else if err := drain(0); err != nil {
			return info, err
		}
		var prompt string
		if r.From >= 0 && len(finished) > 0 {
			f := finished[r.From%len(finished)]
			base := []rune(f.prompt + f.out)
			take := len(base) // Take < 0: everything
			if r.Take >= 0 {
				take = r.Take % (len(base) + 1)
			}
			prompt = string(base[:take])
			if take > 0 {
				cls["llrc07_prefix_reused"] = true
			}
			if take > len([]rune(f.prompt)) {
				cls["llrc07_prefix_includes_generated_text"] = true
			}
		}
		for _, t := range r.Tail {
			prompt += llrGenChars[max(t, 0)%len(llrGenChars)]
		}
		if prompt == "" {
			prompt = llrGenChars[i%len(llrGenChars)]
		}
		if utf8.RuneCountInString(prompt) > 60 {
			prompt = string([]rune(prompt)[:60])
		}
		if err := launch(i, prompt, r); err != nil {
			return info, err
		}
	}
	if err := drain(0); err != nil {
		return info, err
	}
	// ---- probes: a request that reuses everything a slot records must generate what a fresh runner generates
	ls.s.mu.Lock()
	var records [][]int
	for i := range ls.s.cache.slots {
		var rec []int
		for _, in := range ls.s.cache.slots[i].Inputs {
			rec = append(rec, in.token)
		}
		if len(rec) > cfg.NumCtx {
			ls.s.mu.Unlock()
			return info, fmt.Errorf("slot %d records %d inputs, num_ctx is %d", i, len(rec), cfg.NumCtx)
		}
		records = append(records, rec)
	}
	ls.s.mu.Unlock()
	for i, rec := range records {
		if len(rec) < 2 || rec[0] != llrTokBOS {
			continue
		}
		var prompt string
		ok := true
		for _, t := range rec[1:] {
			if !slices.Contains(e.vocab.gen, t) {
				ok = false // EOS or another token a prompt cannot spell: not probed
			}
			prompt += e.vocab.tokens[t]
		}
		if !ok {
			continue
		}
		cls["llrc07_probe"] = true
		if err := launch(100+i, prompt, c07rReq{Predict: 3, Keep: 0}); err != nil {
			return info, err
		}
		if err := drain(0); err != nil {
			return info, fmt.Errorf("probe of slot %d, which records %v: %w", i, rec, err)
		}
	}
	stopped = true
	if _, err := ls.stop(); err != nil {
		return info, err
	}
	info.summary = fmt.Sprintf("%d requests, %d compared up to a near tie:", len(finished), ambiguous)
	for _, f := range finished {
		info.summary += fmt.Sprintf(" %q->%q", f.prompt, f.out)
	}
	return info, nil
}

// ------------------------------------------------------------------------------------ generator

func c07rGen(t *rapid.T) c07rCase {
	var c c07rCase
	c.Model = rapid.IntRange(1, 3).Draw(t, "model")
	c.NumCtx = rapid.SampledFrom([]int{8, 12, 10, 16, 32}).Draw(t, "num_ctx")
	c.Batch = rapid.SampledFrom([]int{2, 1, 4, 32}).Draw(t, "batch")
	c.Parallel = rapid.SampledFrom([]int{1, 2, 2}).Draw(t, "parallel")
	c.MultiUser = rapid.Bool().Draw(t, "multi_user")
	n := rapid.IntRange(1, 7).Draw(t, "requests")
	for i := 0; i < n; i++ {
		var r c07rReq
		r.From = rapid.IntRange(-1, 6).Draw(t, "from")
		if i == 0 {
			r.From = -1
		}
		if r.From >= 0 {
			r.Take = rapid.OneOf(rapid.IntRange(0, 200), rapid.Just(199)).Draw(t, "take")
			if r.Take == 199 {
				r.Take = -1 // everything: resolved below
			}
		}
		r.Tail = rapid.SliceOfN(rapid.IntRange(0, len(llrGenChars)-1), 0, rapid.SampledFrom([]int{3, 6, c.NumCtx + 4}).Draw(t, "tail_max")).Draw(t, "tail")
		r.Predict = rapid.OneOf(rapid.IntRange(1, 8), rapid.IntRange(1, 2*c.NumCtx+4)).Draw(t, "predict")
		r.Keep = rapid.IntRange(-1, c.NumCtx).Draw(t, "keep")
		for s := rapid.SampledFrom([]int{0, 0, 1, 2}).Draw(t, "stops"); s > 0; s-- {
			r.Stops = append(r.Stops, strings.Join(rapid.SliceOfN(rapid.SampledFrom(llrGenChars), 1, 2).Draw(t, "stop"), ""))
		}
		r.Overlap = i > 0 && rapid.IntRange(0, 2).Draw(t, "overlap") == 0
		c.Reqs = append(c.Reqs, r)
	}
	return c
}

// ----------------------------------------------------------------------------------------- test

func c07rAssumed(slug string) bool {
	return slices.Contains(strings.Split(os.Getenv("VERIF_ASSUME_KNOWN"), ","), slug)
}

func TestC07LlamaRunner(t *testing.T) {
	const target = "TestC07LlamaRunner"
	rec := vfkit.Open(target)
	defer rec.Flush()
	var rc c07rCase
	if rp, ok, err := vfkit.ReplayCase(target, &rc); ok {
		if err != nil {
			t.Fatalf("replay: %v", err)
		}
		rec.Current(target, rc)
		for i := 0; i < max(rp.Repeat, 1); i++ {
			info, err := c07rRun(rc, func(string) bool { return false }, func(string) {}, nil)
			t.Logf("replay: %s %v", info.summary, info.classes)
			if err != nil {
				if slug, isKnown := strings.CutPrefix(rp.Expect, "known:"); isKnown && slug == c07rKnownSharedShift && slices.Contains(info.classes, "class_"+slug) {
					rec.KnownHit(slug, err.Error())
					if c07rAssumed(slug) { // development aid: the driver does not list the finding yet
						t.Logf("KNOWN-FINDING (assumed): property=C07 %v", err)
						return
					}
				}
				rec.Fail(target, rc, err.Error())
				t.Fatalf("C07 violated: %v", err)
			}
		}
		return
	}
	var survey func(float64)
	if os.Getenv("VERIF_C07L_SURVEY") != "" {
		survey = func(m float64) {
			for _, b := range []float64{0.001, 0.01, 0.02, 0.05, 0.1, 0.2, 0.3, 0.5, 1, 1e9} {
				if m < b {
					rec.Class(fmt.Sprintf("survey_divergence_with_margin_below_%g", b), 1)
					break
				}
			}
		}
	}
	rapid.Check(t, func(rt *rapid.T) {
		if rec.OverBudget() {
			return
		}
		c := c07rGen(rt)
		rec.Current(target, c)
		info, err := c07rRun(c, rec.Known, rec.Excluded, survey)
		rec.Case(c, info.nontrivial, info.classes...)
		if err != nil {
			rec.Fail(target, c, err.Error())
			rt.Fatalf("C07 violated: %v", err)
		}
	})
}
