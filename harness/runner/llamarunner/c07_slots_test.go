package llamarunner

// C07, llamarunner part (see /verif/DESIGN.md section 3 "C07").
//
// llamarunner keeps its KV cache inside llama.cpp: LoadCacheSlot and ShiftCacheSlot call
// (*llama.Context).KvCacheSeqRm/… through cgo and need a loaded model, so they are out of reach
// here (a nil context crashes in C). What CAN be checked is everything that decides which slot a
// request gets and how much of it is reused: findLongestCacheSlot, findBestCacheSlot (which the
// package's own tests also call with lc == nil), countCommonPrefix and ShiftDiscard.
//
// Oracle = differential against ollamarunner's InputCache, driven through its exported API
// (NewInputCache with a cache-less model, LoadCacheSlot, ShiftCacheSlot, ShiftDiscard) over the
// same generated history of loads / generated tokens / shifts / releases, plus the predicates of
// the property on llamarunner's own answers: the slot handed out was not in use, the reused count
// is the length of the common prefix of what the slot records and the prompt, a forked slot
// records exactly the copied prefix.
//
// The history runs inside a testing/synctest bubble: both packages stamp slots with time.Now(),
// and the bubble's clock (advanced 1 ms by the harness between operations) makes the "oldest
// slot" choice exact and identical on both sides.

import (
	"fmt"
	"os"
	"slices"
	"testing"
	"testing/synctest"
	"time"

	"pgregory.net/rapid"
	"verif.local/vfkit"

	"github.com/ollama/ollama/ml"
	"github.com/ollama/ollama/model"
	modelinput "github.com/ollama/ollama/model/input"
	"github.com/ollama/ollama/runner/ollamarunner"
)

type c07lOp struct {
	Kind   string `json:"kind"`             // load | gen | shift | release
	From   int    `json:"from,omitempty"`   // load: -1 new prompt, else reuse a prefix of what slot From%slots records
	Take   int    `json:"take,omitempty"`   // load: length of that prefix
	Tail   []int  `json:"tail,omitempty"`   // load: tokens appended; gen: tokens generated
	Eval   int    `json:"eval,omitempty"`   // load: how many of the remaining prompt inputs get evaluated (recorded) right away; <0 = all
	Target int    `json:"target,omitempty"` // gen/shift/release: index into the live requests (mod)
	Keep   int    `json:"keep,omitempty"`   // shift: num_keep
}

type c07lCase struct {
	Slots     int      `json:"slots"`
	NumCtx    int      `json:"num_ctx"`
	MultiUser bool     `json:"multi_user"`
	Ops       []c07lOp `json:"ops"`
}

type c07lModel struct{ model.Base }

func (c07lModel) Forward(ml.Context, modelinput.Batch) (ml.Tensor, error) {
	return nil, fmt.Errorf("harness: the cache-less model is never evaluated")
}

func c07lTokensL(in []input) []int {
	out := make([]int, len(in))
	for i := range in {
		out[i] = in[i].token
	}
	return out
}

func c07lTokensO(in []modelinput.Input) []int {
	out := make([]int, len(in))
	for i := range in {
		out[i] = int(in[i].Token)
	}
	return out
}

func c07lCommon(a, b []int) int {
	n := 0
	for n < len(a) && n < len(b) && a[n] == b[n] {
		n++
	}
	return n
}

type c07lInfo struct {
	nontrivial bool
	classes    []string
}

func c07lRun(c c07lCase) (info c07lInfo, err error) {
	cls := map[string]bool{}
	defer func() {
		for k := range cls {
			info.classes = append(info.classes, "ll_"+k)
		}
		slices.Sort(info.classes)
		info.nontrivial = cls["fork"] || cls["shift"] || cls["evict_nonempty"]
	}()
	if c.Slots < 1 || c.NumCtx < 2 {
		return info, fmt.Errorf("harness: bad case")
	}
	oc, e := ollamarunner.NewInputCache(&c07lModel{Base: model.VerifNewBase(nil, nil)}, "", int32(c.NumCtx*c.Slots), c.Slots, 8, c.MultiUser)
	if e != nil {
		return info, fmt.Errorf("harness: ollamarunner.NewInputCache: %v", e)
	}
	lc, e := NewInputCache(nil, c.NumCtx*c.Slots, c.Slots, c.MultiUser)
	if e != nil {
		return info, fmt.Errorf("llamarunner.NewInputCache(nil, %d, %d): %v", c.NumCtx*c.Slots, c.Slots, e)
	}
	if lc.numCtx != c.NumCtx {
		return info, fmt.Errorf("llamarunner.NewInputCache: per-slot context %d, want %d", lc.numCtx, c.NumCtx)
	}

	type live struct {
		l *InputCacheSlot
		o *ollamarunner.InputCacheSlot
	}
	var lives []live
	oslots := make([]*ollamarunner.InputCacheSlot, c.Slots) // learnt as LoadCacheSlot hands them out

	compare := func(when string) error {
		for i := range lc.slots {
			if oslots[i] == nil {
				if len(lc.slots[i].Inputs) != 0 || lc.slots[i].InUse {
					return fmt.Errorf("%s: llamarunner slot %d records %v (in use %v) but ollamarunner never used slot %d", when, i, c07lTokensL(lc.slots[i].Inputs), lc.slots[i].InUse, i)
				}
				continue
			}
			lt, ot := c07lTokensL(lc.slots[i].Inputs), c07lTokensO(oslots[i].Inputs)
			if !slices.Equal(lt, ot) || lc.slots[i].InUse != oslots[i].InUse {
				return fmt.Errorf("%s: slot %d: llamarunner records %v (in use %v), ollamarunner records %v (in use %v)", when, i, lt, lc.slots[i].InUse, ot, oslots[i].InUse)
			}
		}
		return nil
	}

	for n, op := range c.Ops {
		time.Sleep(time.Millisecond) // bubble clock: every operation has its own instant
		when := fmt.Sprintf("op %d (%s)", n, op.Kind)
		switch op.Kind {
		case "load":
			if len(lives) >= c.Slots {
				cls["noop"] = true
				continue
			}
			var prompt []int
			if op.From >= 0 {
				base := c07lTokensL(lc.slots[op.From%c.Slots].Inputs)
				prompt = append(prompt, base[:min(max(op.Take, 0), len(base))]...)
			}
			prompt = append(prompt, op.Tail...)
			if len(prompt) == 0 {
				prompt = []int{0}
			}
			if len(prompt) > c.NumCtx { // the runners truncate before asking the cache
				prompt = prompt[:c.NumCtx]
			}
			lp := make([]input, len(prompt))
			op_ := make([]modelinput.Input, len(prompt))
			for i, t := range prompt {
				lp[i] = input{token: t}
				op_[i] = modelinput.Input{Token: int32(t)}
			}
			// snapshot for the predicates
			before := make([][]int, c.Slots)
			inUse := make([]bool, c.Slots)
			for i := range lc.slots {
				before[i] = c07lTokensL(lc.slots[i].Inputs)
				inUse[i] = lc.slots[i].InUse
			}
			// --- llamarunner: the selection functions + LoadCacheSlot's bookkeeping minus the cgo calls
			var ls *InputCacheSlot
			var numPast int
			var lerr error
			if !lc.multiUserCache {
				ls, numPast, lerr = lc.findLongestCacheSlot(lp)
			} else {
				ls, numPast, lerr = lc.findBestCacheSlot(lp)
			}
			// --- ollamarunner
			os_, orest, oerr := oc.LoadCacheSlot(op_)
			if (lerr != nil) != (oerr != nil) {
				return info, fmt.Errorf("%s prompt %v: llamarunner error %v, ollamarunner error %v", when, prompt, lerr, oerr)
			}
			if lerr != nil {
				return info, fmt.Errorf("%s prompt %v: no slot although only %d of %d are in use: %v", when, prompt, len(lives), c.Slots, lerr)
			}
			// predicates on llamarunner's own answer
			if inUse[ls.Id] {
				return info, fmt.Errorf("%s prompt %v: llamarunner hands out slot %d, which is in use", when, prompt, ls.Id)
			}
			if &lc.slots[ls.Id] != ls {
				return info, fmt.Errorf("%s: llamarunner returned a slot that is not slots[%d]", when, ls.Id)
			}
			now := c07lTokensL(ls.Inputs)
			if numPast != c07lCommon(now, prompt) || numPast > len(now) {
				return info, fmt.Errorf("%s prompt %v: llamarunner slot %d records %v but reports %d reusable inputs", when, prompt, ls.Id, now, numPast)
			}
			if !slices.Equal(now, before[ls.Id]) {
				// forked: must be exactly a prefix copied from another slot
				cls["fork"] = true
				ok := false
				for j := range before {
					if j != ls.Id && len(now) <= len(before[j]) && slices.Equal(now, before[j][:len(now)]) && c07lCommon(before[j], prompt) == len(now) {
						ok = true
					}
				}
				if !ok {
					return info, fmt.Errorf("%s prompt %v: llamarunner slot %d now records %v, which is not the common prefix of the prompt and another slot (slots before: %v)", when, prompt, ls.Id, now, before)
				}
			}
			if len(before[ls.Id]) > 0 && numPast < len(before[ls.Id]) {
				cls["evict_nonempty"] = true
			}
			best := 0
			for j := range before {
				if !inUse[j] {
					best = max(best, c07lCommon(before[j], prompt))
				}
			}
			if !lc.multiUserCache && numPast != best {
				return info, fmt.Errorf("%s prompt %v: llamarunner reuses %d inputs of slot %d, a free slot shares %d (slots before: %v)", when, prompt, numPast, ls.Id, best, before)
			}
			if numPast > 0 {
				cls["prefix_reused"] = true
			}
			// LoadCacheSlot's bookkeeping
			ls.InUse = true
			ls.lastUsed = time.Now()
			if numPast == len(lp) {
				numPast--
				cls["whole_prompt_cached"] = true
			}
			lrest := lp[numPast:]
			ls.Inputs = ls.Inputs[:numPast]
			// differential
			if os_.Id != ls.Id || len(orest) != len(lrest) {
				return info, fmt.Errorf("%s prompt %v: llamarunner picks slot %d and evaluates %d inputs, ollamarunner picks slot %d and evaluates %d (slots before: %v, in use %v)",
					when, prompt, ls.Id, len(lrest), os_.Id, len(orest), before, inUse)
			}
			oslots[os_.Id] = os_
			// evaluate (part of) the rest of the prompt: recorded after Forward/Decode
			k := len(lrest)
			if op.Eval >= 0 && op.Eval < k {
				k = op.Eval
				cls["partial_prompt"] = true
			}
			ls.Inputs = append(ls.Inputs, lrest[:k]...)
			os_.Inputs = append(os_.Inputs, orest[:k]...)
			lives = append(lives, live{ls, os_})
		case "gen":
			if len(lives) == 0 {
				cls["noop"] = true
				continue
			}
			lv := lives[op.Target%len(lives)]
			for _, t := range op.Tail {
				if len(lv.l.Inputs) >= c.NumCtx {
					break // the runners shift before exceeding the context
				}
				lv.l.Inputs = append(lv.l.Inputs, input{token: t})
				lv.o.Inputs = append(lv.o.Inputs, modelinput.Input{Token: int32(t)})
			}
		case "shift":
			if len(lives) == 0 {
				cls["noop"] = true
				continue
			}
			lv := lives[op.Target%len(lives)]
			keep := min(max(op.Keep, 0), c.NumCtx-1) // NewSequence clamps num_keep to num_ctx-1
			n := len(lv.l.Inputs)
			ld := lc.ShiftDiscard(n, keep)
			od := oc.ShiftDiscard(int32(n), int32(keep))
			if ld != int(od) {
				return info, fmt.Errorf("%s: ShiftDiscard(%d inputs, keep %d) with num_ctx %d: llamarunner %d, ollamarunner %d", when, n, keep, c.NumCtx, ld, od)
			}
			if ld < 0 || (ld > 0 && keep+ld > n) {
				return info, fmt.Errorf("%s: llamarunner ShiftDiscard(%d inputs, keep %d) with num_ctx %d = %d, outside the inputs", when, n, keep, c.NumCtx, ld)
			}
			if n == c.NumCtx && ld < 1 {
				return info, fmt.Errorf("%s: llamarunner ShiftDiscard on a full context (%d inputs, keep %d) frees nothing", when, n, keep)
			}
			if keep+ld > n {
				cls["noop"] = true
				continue
			}
			if err := oc.ShiftCacheSlot(lv.o, int32(keep)); err != nil {
				return info, fmt.Errorf("%s: ollamarunner.ShiftCacheSlot(keep %d) on %d inputs: %v", when, keep, n, err)
			}
			if ld > 0 {
				cls["shift"] = true
				// what llamarunner's ShiftCacheSlot does to the record after the (cgo) cache calls
				for i := keep + ld; i < n; i++ {
					lv.l.Inputs[i-ld] = lv.l.Inputs[i]
				}
				lv.l.Inputs = lv.l.Inputs[:n-ld]
			}
		case "release":
			if len(lives) == 0 {
				cls["noop"] = true
				continue
			}
			i := op.Target % len(lives)
			lives[i].l.InUse = false
			lives[i].o.InUse = false
			lives = slices.Delete(lives, i, i+1)
		default:
			return info, fmt.Errorf("harness: unknown op %q", op.Kind)
		}
		if err := compare(when); err != nil {
			return info, err
		}
	}
	if c.MultiUser {
		cls["multi_user"] = true
	}
	return info, nil
}

func c07lGen(t *rapid.T) c07lCase {
	var c c07lCase
	c.Slots = rapid.IntRange(1, 4).Draw(t, "slots")
	c.NumCtx = rapid.IntRange(2, 16).Draw(t, "num_ctx")
	c.MultiUser = rapid.Bool().Draw(t, "multi_user")
	vocab := rapid.SampledFrom([]int{2, 3, 5}).Draw(t, "vocab")
	tok := rapid.IntRange(0, vocab-1)
	n := rapid.IntRange(1, 30).Draw(t, "ops")
	for i := 0; i < n; i++ {
		var op c07lOp
		op.Kind = rapid.SampledFrom([]string{"load", "load", "load", "gen", "gen", "shift", "release", "release"}).Draw(t, "kind")
		switch op.Kind {
		case "load":
			op.From = rapid.IntRange(-1, c.Slots-1).Draw(t, "from")
			op.Take = rapid.OneOf(rapid.Just(1000), rapid.IntRange(0, c.NumCtx)).Draw(t, "take")
			op.Tail = rapid.SliceOfN(tok, 0, 4).Draw(t, "tail")
			op.Eval = rapid.SampledFrom([]int{-1, -1, -1, 0, 1, 2}).Draw(t, "eval")
		case "gen":
			op.Target = rapid.IntRange(0, 3).Draw(t, "target")
			op.Tail = rapid.SliceOfN(tok, 1, c.NumCtx).Draw(t, "tokens")
		case "shift":
			op.Target = rapid.IntRange(0, 3).Draw(t, "target")
			op.Keep = rapid.OneOf(rapid.Just(0), rapid.IntRange(0, c.NumCtx)).Draw(t, "keep")
		case "release":
			op.Target = rapid.IntRange(0, 3).Draw(t, "target")
		}
		c.Ops = append(c.Ops, op)
	}
	return c
}

func c07lBubble(t *testing.T, c c07lCase) (info c07lInfo, err error) {
	synctest.Test(t, func(*testing.T) { info, err = c07lRun(c) })
	return info, err
}

func TestC07LlamaSlots(t *testing.T) {
	const target = "TestC07LlamaSlots"
	rec := vfkit.Open(target)
	defer rec.Flush()
	var rc c07lCase
	if _, ok, err := vfkit.ReplayCase(target, &rc); ok {
		if err != nil {
			t.Fatalf("replay: %v", err)
		}
		if _, err := c07lBubble(t, rc); err != nil {
			rec.Fail(target, rc, err.Error())
			t.Fatalf("C07 violated: %v", err)
		}
		return
	}
	rapid.Check(t, func(rt *rapid.T) {
		if rec.OverBudget() {
			return
		}
		c := c07lGen(rt)
		info, err := c07lBubble(t, c)
		rec.Case(c, info.nontrivial, info.classes...)
		if err != nil {
			rec.Fail(target, c, err.Error())
			rt.Fatalf("C07 violated: %v", err)
		}
	})
}

// TestC07LlamaShiftDiscard: the shift arithmetic over its whole small domain, both runners.
func TestC07LlamaShiftDiscard(t *testing.T) {
	const target = "TestC07LlamaShiftDiscard"
	rec := vfkit.Open(target)
	defer rec.Flush()
	if os.Getenv("VERIF_REPLAY") != "" {
		return
	}
	n := 0
	for numCtx := 1; numCtx <= 40; numCtx++ {
		lc := &InputCache{numCtx: numCtx}
		oc, err := ollamarunner.NewInputCache(&c07lModel{Base: model.VerifNewBase(nil, nil)}, "", int32(numCtx), 1, 1, false)
		if err != nil {
			t.Fatalf("harness: %v", err)
		}
		for keep := 0; keep < numCtx; keep++ {
			for inputLen := 0; inputLen <= numCtx; inputLen++ {
				n++
				ld, od := lc.ShiftDiscard(inputLen, keep), int(oc.ShiftDiscard(int32(inputLen), int32(keep)))
				var msg string
				switch {
				case ld != od:
					msg = fmt.Sprintf("llamarunner %d, ollamarunner %d", ld, od)
				case ld < 0:
					msg = fmt.Sprintf("negative discard %d", ld)
				case inputLen == numCtx && (ld < 1 || keep+ld > inputLen):
					msg = fmt.Sprintf("full context: discard %d does not free 1..%d inputs after the kept ones", ld, inputLen-keep)
				case inputLen-ld > numCtx-1 && inputLen == numCtx:
					msg = fmt.Sprintf("full context: %d inputs remain, no room for the next one", inputLen-ld)
				}
				if msg != "" {
					c := map[string]int{"num_ctx": numCtx, "keep": keep, "inputs": inputLen}
					rec.Fail(target, c, msg)
					t.Fatalf("C07 violated: ShiftDiscard(num_ctx %d, keep %d, inputs %d): %s", numCtx, keep, inputLen, msg)
				}
			}
		}
		rec.Case(numCtx, true, "ll_shiftdiscard_num_ctx")
	}
	rec.SetExtra("shiftdiscard_triples_enumerated", n)
	t.Logf("%d triples", n)
}
