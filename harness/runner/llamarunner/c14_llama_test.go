package llamarunner

// C14, llamarunner — streamed text stops before stop sequences and is always whole UTF-8, checked
// on the REAL llamarunner (completion handler, Server.run, processBatch, flushPending, context
// shift through llama.cpp's KV cache) with a REAL tiny model (engine llr, llr_engine_test.go).
//
// A case is a text (atoms with 1-4 byte characters), how generation goes on after it (mode
// "exact": the grammar is root ::= "<text>", the model must generate the text and then EOS; "tail":
// the text is followed by an endless run of filler characters, so only a stop string or the limit
// ends generation; "free": no grammar, tokens drawn uniformly from the whole vocabulary, mostly
// not valid UTF-8), a sampler seed that decides into which token pieces the text is cut, stop
// strings, num_predict and a small runner configuration.
//
// Reference: llrReference generates with the same prompt, sampling parameters, grammar and seed in a
// plain loop on package llama with no stop strings and the same limit; its piece sequence is "the
// text the model generated". The oracle is the one of the ollamarunner harness (c14Run in
// harness/runner/ollamarunner/c14_run_test.go, copied):
//   - the concatenated stream is a prefix of the generated text;
//   - if a stop string is complete after piece j (first such j) the output contains no stop string
//     and is immediately followed by one in the generated text; else it is everything up to
//     EOS / the limit minus an incomplete last character;
//   - every streamed piece is valid UTF-8, non-empty and free of stop strings;
//   - done_reason "length" iff the limit ended generation (then eval_count = limit), else "stop";
//   - exactly one final message, last line, HTTP 200; prompt_eval_count = prompt tokens;
//   - without a context shift: the slot records prompt ++ generated tokens cut where the output was cut.
// For generated text that is not valid UTF-8 ("free" mode) only the weaker claims of the
// ollamarunner harness are made (the runner drops bytes there on purpose).

import (
	"fmt"
	"slices"
	"strings"
	"testing"
	"testing/synctest"
	"unicode/utf8"

	"pgregory.net/rapid"
	"verif.local/vfkit"

	"github.com/ollama/ollama/api"
	"github.com/ollama/ollama/llm"
)

type c14lCase struct {
	Text      string   `json:"text"`
	Mode      string   `json:"mode"` // exact | tail | free
	Stops     []string `json:"stops"`
	Predict   int      `json:"predict"` // num_predict; <= 0 = unlimited (only with mode exact)
	Seed      int      `json:"seed"`
	Defaults  bool     `json:"defaults,omitempty"` // ollama's default sampling options instead of neutral ones
	NumCtx    int      `json:"num_ctx"`
	Batch     int      `json:"batch"`
	Parallel  int      `json:"parallel"`
	PromptLen int      `json:"prompt_len"`
	Keep      int      `json:"keep"`

	// slow client: Body filler characters are generated in front of the text (hundreds of cheap
	// pieces) and the client stops reading after StallAfter chunks until the runner has nothing left
	// it can do (blocked on the full response buffer, or done); then it reads everything that is sent.
	Slow       bool `json:"slow,omitempty"`
	Body       int  `json:"body,omitempty"`
	StallAfter int  `json:"stall_after,omitempty"`
}

type c14lInfo struct {
	nontrivial bool
	classes    []string
	summary    string
}

const c14lHardCap = 96

func c14lContainsAny(s string, stops []string) (string, bool) {
	for _, st := range stops {
		if strings.Contains(s, st) {
			return st, true
		}
	}
	return "", false
}

func c14lStartsWithAny(s string, stops []string) bool {
	for _, st := range stops {
		if strings.HasPrefix(s, st) {
			return true
		}
	}
	return false
}

func c14lValidPrefixLen(s string) int {
	n := 0
	for n < len(s) {
		r, size := utf8.DecodeRuneInString(s[n:])
		if r == utf8.RuneError && size <= 1 {
			break
		}
		n += size
	}
	return n
}

// c14lSplitIncomplete: s = complete ++ rest where complete is valid UTF-8 and rest is empty or the
// beginning of one multi-byte character; ok is false if s is not of that form.
func c14lSplitIncomplete(s string) (complete string, ok bool) {
	n := c14lValidPrefixLen(s)
	rest := s[n:]
	if rest == "" || !utf8.FullRuneInString(rest) {
		return s[:n], true
	}
	return "", false
}

// c14lEndsWithStopPrefix: s ends with a non-empty proper prefix of a stop string (the harness's own
// formulation, used for classes only).
func c14lEndsWithStopPrefix(s string, stops []string) bool {
	for _, st := range stops {
		for i := 1; i < len(st); i++ {
			if strings.HasSuffix(s, st[:i]) {
				return true
			}
		}
	}
	return false
}

func c14lRun(t *testing.T, c c14lCase) (info c14lInfo, err error) {
	cls := map[string]bool{}
	defer func() {
		for k := range cls {
			info.classes = append(info.classes, k)
		}
		slices.Sort(info.classes)
		info.nontrivial = cls["llr_stop_spans_pieces"] || cls["llr_multibyte_split"]
		if err != nil && len(err.Error()) > 1400 { // long generations: keep both ends of the message
			m := err.Error()
			err = fmt.Errorf("%s … [%d bytes] … %s", m[:700], len(m)-1200, m[len(m)-500:])
		}
	}()
	// ---- normalise (a shrunk or hand-written case may hold anything)
	cfg := llrConfig{NumCtx: llrNearest(c.NumCtx, []int{6, 8, 16, 64, 512}), Batch: llrNearest(c.Batch, []int{1, 2, 8, 32}), Parallel: llrNearest(c.Parallel, []int{1, 2})}
	c.PromptLen = min(max(c.PromptLen, 1), 6)
	c.Keep = min(max(c.Keep, -1), 8)
	if !utf8.ValidString(c.Text) || strings.ContainsAny(c.Text, "xyz\x00P") || len(c.Text) > 80 {
		return info, fmt.Errorf("harness: text %q", c.Text)
	}
	for _, s := range c.Stops {
		if !utf8.ValidString(s) {
			return info, fmt.Errorf("harness: stop %q is not valid UTF-8 (cannot be sent as JSON)", s)
		}
	}
	stops := c.Stops
	var grammar string
	hardCap, pre := c14lHardCap, ""
	if c.Slow {
		if c.Mode == "free" {
			c.Mode = "exact"
		}
		c.Body = min(max(c.Body, 0), 420)
		c.StallAfter = max(c.StallAfter, 0)
		hardCap += c.Body
		pre = fmt.Sprintf("[xyz]{%d} ", c.Body)
	}
	switch c.Mode {
	case "exact":
		grammar = "root ::= " + pre + llrGrammarLiteral(c.Text)
	case "tail":
		grammar = "root ::= " + pre + llrGrammarLiteral(c.Text) + " tail\ntail ::= [xyz] tail"
	case "free":
	default:
		return info, fmt.Errorf("harness: mode %q", c.Mode)
	}
	if c.Mode != "exact" {
		c.Predict = min(max(c.Predict, 1), hardCap/2)
	}
	c.Predict = min(c.Predict, hardCap-6)
	unlimited := c.Predict <= 0
	opts := api.Options{NumPredict: c.Predict, NumKeep: c.Keep, Stop: stops, Seed: c.Seed & 0x7fffffff,
		Temperature: 1, TopK: 0, TopP: 1, MinP: 0, TypicalP: 1, RepeatPenalty: 1, RepeatLastN: 0}
	if c.Defaults {
		d := api.DefaultOptions()
		opts.Temperature, opts.TopK, opts.TopP, opts.TypicalP, opts.RepeatPenalty, opts.RepeatLastN = d.Temperature, d.TopK, d.TopP, d.TypicalP, d.RepeatPenalty, d.RepeatLastN
	}
	req := llrRequest{Prompt: strings.Repeat("P", c.PromptLen), Grammar: grammar, Options: opts}
	spec := llrModelSpec{Kind: "flat"}

	e, err := llrGet()
	if err != nil {
		return info, fmt.Errorf("harness: %v", err)
	}
	// ---- reference: what the model generates for this request when nobody cuts it
	g, err := e.llrReference(spec, req, c.Predict, hardCap)
	if err != nil {
		return info, err
	}
	pieces, k := g.pieces, len(g.pieces)
	if len(g.prompt) != c.PromptLen+1 {
		return info, fmt.Errorf("harness: prompt %q is %d tokens", req.Prompt, len(g.prompt))
	}
	full := strings.Join(pieces, "")
	_, valid := c14lSplitIncomplete(full)
	valid = valid && !strings.Contains(full, "\uFFFD")
	if body := strings.TrimLeft(full, "xyz"); c.Mode == "exact" && (!g.eog && unlimited || !strings.HasPrefix(c.Text, body) || g.eog && (body != c.Text || len(full)-len(body) != c.Body)) {
		return info, fmt.Errorf("harness: grammar %q, reference generated %q eog %v", grammar, pieces, g.eog)
	}
	hasEmptyStop := slices.Contains(stops, "")
	if !valid {
		cls["llr_invalid_utf8"] = true
	}

	// first piece after which a stop string is complete
	stopAt := -1
	for j := 1; j <= k && stopAt < 0; j++ {
		if _, ok := c14lContainsAny(strings.Join(pieces[:j], ""), stops); ok {
			stopAt = j
		}
	}
	wantReason := "stop"
	endTokens := k
	switch {
	case stopAt >= 0:
		endTokens = stopAt
		cls["llr_stop_hit"] = true
	case g.eog:
		cls["llr_eos_hit"] = true
	default:
		wantReason = "length"
		cls["llr_limit_hit"] = true
	}
	generated := strings.Join(pieces[:endTokens], "")

	// ---- classes about what was generated
	if valid {
		off, tokensOfChar := 0, 1
		for _, p := range pieces[:endTokens] {
			// how many tokens does the character that is open at the end of this piece span so far?
			for i := 0; i < len(p); i++ {
				if utf8.RuneStart(p[i]) {
					tokensOfChar = 1
				}
			}
			off += len(p)
			if off < len(generated) && !utf8.RuneStart(generated[off]) {
				cls["llr_multibyte_split"] = true
				tokensOfChar++
				if tokensOfChar >= 3 {
					cls["llr_multibyte_split_over_3_tokens"] = true
				}
			}
		}
	}
	if stopAt >= 0 {
		before := len(generated) - len(pieces[stopAt-1])
		for _, st := range stops {
			if i := strings.Index(generated, st); i >= 0 && i < before && i+len(st) > before {
				cls["llr_stop_spans_pieces"] = true
			}
		}
	} else if len(stops) > 0 {
		for _, st := range stops {
			for i := 1; i < len(st); i++ {
				if strings.Contains(generated, st[:i]) {
					cls["llr_stop_prefix_occurs_without_stop"] = true
				}
			}
		}
	}
	if stopAt < 0 && valid && !hasEmptyStop {
		// what is still withheld when the last token arrives (classes only)
		start, off := 0, 0
		for j, p := range pieces[:endTokens] {
			off += len(p)
			pend := generated[start:off]
			_, whole := c14lSplitIncomplete(pend)
			incomplete := c14lValidPrefixLen(pend) < len(pend)
			withheld := c14lEndsWithStopPrefix(pend, stops) || (whole && incomplete)
			if !withheld {
				start = off
			} else if j == endTokens-1 {
				if wantReason == "length" {
					cls["llr_limit_on_withheld_piece"] = true
				} else {
					cls["llr_eos_on_withheld_piece"] = true
				}
			}
		}
	}
	promptTokens := len(g.prompt)
	shift := promptTokens+endTokens > cfg.NumCtx
	if shift {
		cls["llr_context_shift"] = true
	}

	// ---- the runner
	var lines []llrLine
	var status int
	var slots [][]int
	serve := func(slow *llrSlow) {
		var ls *llrServer
		if ls, err = e.server(spec, cfg); err != nil {
			err = fmt.Errorf("harness: %v", err)
			return
		}
		lines, status, err = ls.complete(req, slow)
		var err2 error
		if slots, err2 = ls.stop(); err == nil {
			err = err2
		}
	}
	if c.Slow {
		cls["llr_slow_client"] = true
		slow := &llrSlow{stallAfter: c.StallAfter}
		synctest.Test(t, func(*testing.T) { serve(slow) })
		if slow.blocked {
			cls["llr_slow_client_runner_blocked_on_full_buffer"] = true
		} else if err == nil && len(lines) > c.StallAfter {
			cls["llr_slow_client_generation_ended_during_stall"] = true
		}
	} else {
		serve(nil)
	}
	if err != nil {
		return info, err
	}
	info.summary = fmt.Sprintf("%d pieces, eog %v, %d stops, predict %d -> %d lines", k, g.eog, len(stops), c.Predict, len(lines))

	// ---- oracle
	what := fmt.Sprintf("pieces %q, stops %q, num_predict %d, eos %v", pieces, stops, c.Predict, g.eog)
	if k > 30 {
		what = fmt.Sprintf("%d pieces (%q ... %q), stops %q, num_predict %d, eos %v", k, pieces[:4], pieces[k-12:], stops, c.Predict, g.eog)
	}
	if c.Slow {
		what += fmt.Sprintf(", client stalls after %d chunks until the runner cannot go on, then reads everything", c.StallAfter)
	}
	if status != 200 {
		return info, fmt.Errorf("%s: HTTP status %d", what, status)
	}
	finals := 0
	var out string
	var final llrLine
	for i, l := range lines {
		if l.Done {
			finals++
			final = l
			if i != len(lines)-1 {
				return info, fmt.Errorf("%s: final message is line %d of %d", what, i+1, len(lines))
			}
			if l.Content != "" {
				return info, fmt.Errorf("%s: final message carries content %q", what, l.Content)
			}
			continue
		}
		if l.Content == "" {
			return info, fmt.Errorf("%s: line %d streams an empty piece", what, i+1)
		}
		if !utf8.ValidString(l.Content) || strings.Contains(l.Content, "\uFFFD") {
			return info, fmt.Errorf("%s: streamed piece %q (line %d) is not valid UTF-8 (generated text %q)", what, l.Content, i+1, generated)
		}
		if st, bad := c14lContainsAny(l.Content, stops); bad && valid && !hasEmptyStop {
			return info, fmt.Errorf("%s: streamed piece %q (line %d) contains stop string %q", what, l.Content, i+1, st)
		}
		out += l.Content
	}
	if finals != 1 {
		return info, fmt.Errorf("%s: %d final messages in %d lines", what, finals, len(lines))
	}
	gotReason := llm.DoneReason(final.DoneReason).String()

	if hasEmptyStop {
		// "" occurs in any text: generation ends with the first token (a piece or EOS) and nothing is returned
		cls["llr_empty_stop_string"] = true
		if out != "" || gotReason != "stop" || final.EvalCount != 1 {
			return info, fmt.Errorf("%s: output %q, done_reason %q, eval_count %d; with an empty stop string: \"\", stop, 1", what, out, gotReason, final.EvalCount)
		}
		return info, nil
	}

	if !valid {
		// bytes are dropped on purpose (flushPending: "never output invalid Unicode")
		firstBad := c14lValidPrefixLen(full)
		earliest, inValidPart := len(generated), false
		for _, st := range stops {
			if i := strings.Index(generated, st); i >= 0 {
				earliest = min(earliest, i)
				if i+len(st) <= firstBad {
					inValidPart = true
				}
			}
		}
		if gotReason == "length" && (unlimited || final.EvalCount != c.Predict) {
			return info, fmt.Errorf("%s: done_reason length with eval_count %d", what, final.EvalCount)
		}
		if !inValidPart {
			if expect := generated[:min(earliest, firstBad, len(generated))]; !strings.HasPrefix(out, expect) {
				return info, fmt.Errorf("%s: output %q does not start with %q, the beginning of the generated text up to the first stop string / invalid byte", what, out, expect)
			}
			return info, nil
		}
		cls["llr_invalid_after_stop_only"] = true
	}

	if !strings.HasPrefix(generated, out) {
		return info, fmt.Errorf("%s: output %q is not a prefix of the generated text %q", what, out, generated)
	}
	if st, bad := c14lContainsAny(out, stops); bad {
		return info, fmt.Errorf("%s: output %q contains stop string %q", what, out, st)
	}
	if stopAt >= 0 {
		if !c14lStartsWithAny(generated[len(out):], stops) {
			return info, fmt.Errorf("%s: generated text %q holds a stop string after piece %d, output %q does not end immediately before one", what, generated, stopAt, out)
		}
		earliest := len(generated)
		for _, st := range stops {
			if i := strings.Index(generated, st); i >= 0 {
				earliest = min(earliest, i)
			}
		}
		if len(out) != earliest {
			cls["llr_cut_not_at_earliest_occurrence"] = true
		}
	} else if want, _ := c14lSplitIncomplete(generated); out != want {
		return info, fmt.Errorf("%s: output %q, expected everything up to %s: %q", what, out, map[bool]string{true: "the limit", false: "EOS"}[wantReason == "length"], want)
	}
	if gotReason != wantReason {
		return info, fmt.Errorf("%s: done_reason %q, expected %q", what, gotReason, wantReason)
	}
	if wantReason == "length" && final.EvalCount != c.Predict {
		return info, fmt.Errorf("%s: done_reason length with eval_count %d, the limit is %d", what, final.EvalCount, c.Predict)
	}
	if want := min(promptTokens, cfg.NumCtx); final.PromptEval != want {
		return info, fmt.Errorf("%s: prompt_eval_count %d for a prompt of %d tokens (num_ctx %d)", what, final.PromptEval, promptTokens, cfg.NumCtx)
	}

	// ---- the slot's record (only without context shift: a shift rewrites it)
	if !shift && valid {
		var recd []int
		used := 0
		for _, r := range slots {
			if len(r) > 0 {
				recd = r
				used++
			}
		}
		if used != 1 || len(recd) < promptTokens || !slices.Equal(recd[:promptTokens], g.prompt) {
			return info, fmt.Errorf("%s: slots record %v after one request with prompt tokens %v", what, slots, g.prompt)
		}
		gen := recd[promptTokens:]
		if len(gen) > endTokens || !slices.Equal(gen, g.tokens[:len(gen)]) {
			return info, fmt.Errorf("%s: slot records generated tokens %v, not a prefix of the generated tokens %v", what, gen, g.tokens[:endTokens])
		}
		rec := strings.Join(pieces[:len(gen)], "")
		switch {
		case stopAt >= 0:
			if !strings.HasPrefix(out, rec) {
				return info, fmt.Errorf("%s: output %q, but the slot still records tokens %v = %q: a token of the removed stop string stays recorded", what, out, gen, rec)
			}
			if !slices.Contains(pieces[:endTokens], "") {
				// every piece non-empty: the record is exactly the tokens that lie entirely inside the output
				fit, l := 0, 0
				for fit < endTokens && l+len(pieces[fit]) <= len(out) {
					l += len(pieces[fit])
					fit++
				}
				fit = min(fit, endTokens-1) // the token that completed the stop string was never evaluated
				if len(gen) != fit {
					return info, fmt.Errorf("%s: output %q covers %d whole tokens, the slot records %d generated tokens", what, out, fit, len(gen))
				}
			}
		default:
			// EOS or limit: every generated token but the last sampled one has been evaluated
			wantRec := endTokens - 1
			if wantReason == "stop" {
				wantRec = endTokens // EOS was sampled after the last piece had been evaluated
			}
			if len(gen) != max(wantRec, 0) {
				return info, fmt.Errorf("%s: slot records %d generated tokens, expected %d", what, len(gen), wantRec)
			}
		}
	}
	return info, nil
}

// ------------------------------------------------------------------------------------ generator

var c14lAtoms = []string{"a", "b", "c", " ", "ab", "é", "è", "日", "€", "本", "😀", "ß", "\n"}

func c14lGen(t *rapid.T) c14lCase {
	var c c14lCase
	atoms := rapid.SliceOfN(rapid.SampledFrom(c14lAtoms), 0, 14).Draw(t, "atoms")
	c.Text = strings.Join(atoms, "")
	c.Mode = rapid.SampledFrom([]string{"exact", "tail", "exact", "tail", "exact", "free", "exact", "tail"}).Draw(t, "mode")
	runes := []rune(c.Text)
	c.Slow = rapid.IntRange(0, 23).Draw(t, "slow_client") == 17
	ns := rapid.SampledFrom([]int{0, 1, 1, 2, 2, 3}).Draw(t, "stops")
	for i := 0; i < ns; i++ {
		var st string
		switch kind := rapid.IntRange(0, 6).Draw(t, "stop_kind"); {
		case kind <= 2 && len(runes) > 0: // occurs in the text
			a := rapid.IntRange(0, len(runes)-1).Draw(t, "stop_from")
			l := rapid.IntRange(1, min(4, len(runes)-a)).Draw(t, "stop_len")
			st = string(runes[a : a+l])
		case kind == 3 && len(c.Stops) > 0: // extension / shortening of an earlier stop
			base := []rune(c.Stops[rapid.IntRange(0, len(c.Stops)-1).Draw(t, "stop_base")])
			if len(base) > 1 && rapid.Bool().Draw(t, "stop_shorter") {
				st = string(base[rapid.IntRange(0, 1).Draw(t, "stop_drop_front"):])
				st = string([]rune(st)[:max(1, len([]rune(st))-1)])
			} else {
				st = string(base) + rapid.SampledFrom(c14lAtoms).Draw(t, "stop_ext")
			}
		case kind == 4 && len(runes) > 0: // begins in the text, ends differently: a prefix occurs without the stop
			a := rapid.IntRange(0, len(runes)-1).Draw(t, "stop_from")
			l := rapid.IntRange(1, min(3, len(runes)-a)).Draw(t, "stop_len")
			st = string(runes[a:a+l]) + rapid.SampledFrom([]string{"x", "y", "a", "日", "é", "xy", "\n"}).Draw(t, "stop_tail")
		case kind == 5 && !c.Slow: // in the filler tail
			st = rapid.SampledFrom([]string{"x", "xy", "yz", "zzx", "xyz", "yy"}).Draw(t, "stop_fill")
		default: // probably not in the text, but sharing prefixes with it
			st = strings.Join(rapid.SliceOfN(rapid.SampledFrom(c14lAtoms), 1, 3).Draw(t, "stop_atoms"), "")
		}
		if rapid.IntRange(0, 39).Draw(t, "empty_stop") == 23 {
			st = ""
		}
		c.Stops = append(c.Stops, st)
	}
	c.Predict = rapid.OneOf(rapid.SampledFrom([]int{-1, -1, 0}), rapid.IntRange(1, 2*len(atoms)+4), rapid.IntRange(1, len(atoms)+2)).Draw(t, "predict")
	if c.Slow {
		// a long, cheap generation in front of the text, and a client that falls behind
		if c.Mode == "free" {
			c.Mode = "exact"
		}
		c.Body = rapid.IntRange(310, 420).Draw(t, "body") // at most 3 characters per token: more than 100 chunks
		c.StallAfter = rapid.OneOf(rapid.Just(0), rapid.IntRange(0, 40), rapid.IntRange(0, c.Body)).Draw(t, "stall_after")
		if c.Predict > 0 {
			// the filler takes Body/3 .. Body tokens (about Body/1.5): limits inside it, around its end and beyond
			c.Predict += rapid.IntRange(c.Body/3, c.Body).Draw(t, "predict_body")
		}
	}
	c.Seed = rapid.IntRange(0, 1<<31-1).Draw(t, "seed")
	c.Defaults = rapid.IntRange(0, 3).Draw(t, "default_sampling") == 0
	c.NumCtx = rapid.SampledFrom([]int{6, 8, 16, 64, 512}).Draw(t, "num_ctx")
	c.Batch = rapid.SampledFrom([]int{1, 2, 8, 32}).Draw(t, "batch")
	c.Parallel = rapid.SampledFrom([]int{1, 1, 2}).Draw(t, "parallel")
	c.PromptLen = rapid.IntRange(1, 4).Draw(t, "prompt_len")
	c.Keep = rapid.IntRange(-1, 4).Draw(t, "keep")
	return c
}

// ----------------------------------------------------------------------------------------- test

func TestC14LlamaRunner(t *testing.T) {
	const target = "TestC14LlamaRunner"
	rec := vfkit.Open(target)
	defer rec.Flush()
	var rc c14lCase
	if _, ok, err := vfkit.ReplayCase(target, &rc); ok {
		if err != nil {
			t.Fatalf("replay: %v", err)
		}
		rec.Current(target, rc)
		info, err := c14lRun(t, rc)
		t.Logf("replay: %s %v", info.summary, info.classes)
		if err != nil {
			rec.Fail(target, rc, err.Error())
			t.Fatalf("C14 violated: %v", err)
		}
		return
	}
	rapid.Check(t, func(rt *rapid.T) {
		if rec.OverBudget() {
			return
		}
		c := c14lGen(rt)
		rec.Current(target, c) // llama.cpp aborts the process on an internal assertion
		info, err := c14lRun(t, c)
		rec.Case(c, info.nontrivial, info.classes...)
		if err != nil {
			rec.Fail(target, c, err.Error())
			rt.Fatalf("C14 violated: %v", err)
		}
	})
}
