package llamarunner

// Engine "llr" — the REAL llamarunner.Server on a REAL (tiny) model evaluated by llama.cpp.
//
// llamarunner works on cgo types (llama.Model, llama.Context, llama.Batch, llama.SamplingContext)
// that cannot be faked, so this engine does not fake them: it writes a small GGUF file with
// fs/ggml.WriteGGUF (architecture "llama", 1 block, embedding 16, 2 heads, F32 tensors, a
// hand-made SentencePiece-style vocabulary with the 256 byte-fallback tokens), lets the runner's
// own loadModel load it through llama.cpp, starts Server.run and posts requests to the real
// completion handler.
//
// Steering what the model generates. Vocabulary and weights are fixed per process (a llama.cpp
// context cannot be freed through the Go API and takes ~25 ms to create, so contexts are cached per
// runner configuration and a fresh Server literal is put on top of one for every case). What a
// request can program is its sampler: prompt, seed, sampling options and a GBNF grammar.
//
//   - model kind "flat": output.weight is all zero, so every logit is exactly 0 whatever the context
//     holds; the next token is then chosen by the sampler alone: uniformly (seeded mt19937 of
//     llama.cpp's dist sampler) among the tokens the request's grammar allows. A grammar
//     root ::= "<text>" therefore makes the model generate exactly <text> followed by EOS, cut into
//     token pieces at places that depend on the seed: "a" or "ab" or the byte token <0x61>, the
//     character "日" as one token or as the three byte-fallback tokens <0xE6><0x97><0xA5>, ...
//     (this is how a real SentencePiece model splits characters over tokens).
//   - model kind "rand" (C07): seeded pseudo-random weights in every tensor, generation depends on
//     everything the KV cache holds; see c07_llama_test.go.
//
// Reference ("the text the model generated"): llrReference below — a plain loop on the API of
// package llama (Tokenize, Decode on a context of its own, a sampling context built from the same
// parameters, TokenToPiece, TokenIsEog) that knows nothing about stop strings, pending pieces,
// flushing or UTF-8. Trusted: package llama + llama.cpp (tokenizer, decode, sampler incl. its
// grammar and RNG are deterministic functions of their inputs), fs/ggml.WriteGGUF.

import (
	"bytes"
	"context"
	"encoding/binary"
	"encoding/json"
	"errors"
	"fmt"
	"io"
	"math"
	"net/http"
	"net/http/httptest"
	"os"
	"path/filepath"
	"strings"
	"sync"
	"testing/synctest"
	"time"

	"golang.org/x/sync/semaphore"

	"github.com/ollama/ollama/api"
	"github.com/ollama/ollama/fs/ggml"
	"github.com/ollama/ollama/llama"
	"github.com/ollama/ollama/llm"
)

// ------------------------------------------------------------------------------------ vocabulary

const (
	llrTokUnk = 0
	llrTokBOS = 1
	llrTokEOS = 2
	llrByte0  = 3 // <0x00> .. <0xFF> are 3..258
)

// single characters that occur in generated text (1-4 bytes in UTF-8, sharing lead bytes)
var llrChars = []string{"a", "b", "c", " ", "\n", "é", "è", "日", "本", "€", "😀", "ß"}

// characters of the endless tail that follows a text when the request must run into its limit
var llrFill = []string{"x", "y", "z"}

// characters of the C07 histories: single-character tokens that are part of no longer token, so
// that a text over them has exactly one tokenisation (one token per character), prompts that are
// prefixes of one another as text are prefixes as token sequences, and the tokens a request
// generated can be read off the text it returned.
var llrGenChars = []string{"d", "e", "f", "g", "h", "i", "j", "k", "l", "m", "n", "o", "ü", "λ"}

type llrVocab struct {
	tokens []string
	types  []int32
	id     map[string]int
	gen    []int // ids of llrGenChars
}

// llrBuildVocab is a pure function: the same vocabulary in every process.
func llrBuildVocab() *llrVocab {
	v := &llrVocab{id: map[string]int{}}
	add := func(s string, ty int32) {
		if _, dup := v.id[s]; dup {
			return
		}
		v.id[s] = len(v.tokens)
		v.tokens = append(v.tokens, s)
		v.types = append(v.types, ty)
	}
	add("<unk>", 2)
	add("<s>", 3)
	add("</s>", 3)
	for b := 0; b < 256; b++ {
		add(fmt.Sprintf("<0x%02X>", b), 6)
	}
	add("P", 1) // the prompt token
	for _, c := range llrChars {
		add(c, 1)
	}
	for _, c := range llrFill {
		add(c, 1)
	}
	for _, c := range llrGenChars {
		add(c, 1)
		v.gen = append(v.gen, v.id[c])
	}
	for _, a := range llrChars {
		for _, b := range llrChars {
			add(a+b, 1)
		}
	}
	for i := range llrChars {
		n := len(llrChars)
		add(llrChars[i]+llrChars[(i+1)%n]+llrChars[(i+5)%n], 1)
		add(llrChars[i]+llrChars[i]+llrChars[(i+7)%n], 1)
	}
	for _, s := range []string{"abc", "ab ", " ab", "a b", "b c", "\n\n\n", "xy", "yz", "xx", "zx", "xyz", "ax", "x\n", "日x"} {
		add(s, 1)
	}
	return v
}

// ------------------------------------------------------------------------------------- the model

type llrF32 []float32

func (f llrF32) WriteTo(w io.Writer) (int64, error) {
	buf := make([]byte, 4*len(f))
	for i, v := range f {
		binary.LittleEndian.PutUint32(buf[4*i:], math.Float32bits(v))
	}
	n, err := w.Write(buf)
	return int64(n), err
}

// llrModelSpec says which weights the file holds. Kind "flat": hidden layers pseudo-random,
// output.weight zero. Kind "rand": everything pseudo-random from Seed.
type llrModelSpec struct {
	Kind   string `json:"kind"`
	Seed   uint64 `json:"seed,omitempty"`
	Layers int    `json:"layers,omitempty"`
}

const (
	llrEmbd  = 16
	llrHeads = 2
	llrFF    = 24
)

// llrMix is splitmix64: weights are a pure function of (spec, tensor name, index).
func llrMix(x uint64) uint64 {
	x += 0x9E3779B97F4A7C15
	x = (x ^ (x >> 30)) * 0xBF58476D1CE4E5B9
	x = (x ^ (x >> 27)) * 0x94D049BB133111EB
	return x ^ (x >> 31)
}

type llrWeights struct {
	nVocab int
	out    []float32 // output.weight, row-major [token][embd]
}

func llrWriteModel(path string, spec llrModelSpec, v *llrVocab) (*llrWeights, error) {
	layers := max(spec.Layers, 1)
	nv, D := len(v.tokens), llrEmbd
	rnd := func(name string, n int, scale float32) []float32 {
		h := llrMix(spec.Seed ^ 0xC14)
		for _, b := range []byte(name) {
			h = llrMix(h ^ uint64(b))
		}
		o := make([]float32, n)
		for i := range o {
			h = llrMix(h)
			o[i] = (float32(h>>40)/float32(1<<24)*2 - 1) * scale // uniform in [-scale, scale)
		}
		return o
	}
	ones := func(n int) []float32 {
		o := make([]float32, n)
		for i := range o {
			o[i] = 1
		}
		return o
	}
	t := func(name string, data []float32, shape ...uint64) ggml.Tensor {
		return ggml.Tensor{Name: name, Kind: 0, Shape: shape, WriterTo: llrF32(data)}
	}
	w := &llrWeights{nVocab: nv}
	switch spec.Kind {
	case "flat":
		w.out = make([]float32, nv*D)
	case "rand":
		// only the single-character tokens of llrGenChars (and, less often, EOS) can win: every other row is zero
		w.out = make([]float32, nv*D)
		r := rnd("output.weight", nv*D, 1)
		for _, id := range v.gen {
			copy(w.out[id*D:(id+1)*D], r[id*D:(id+1)*D])
		}
		for d := 0; d < D; d++ {
			w.out[llrTokEOS*D+d] = 0.7 * r[llrTokEOS*D+d]
		}
	default:
		return nil, fmt.Errorf("unknown model kind %q", spec.Kind)
	}
	ts := []ggml.Tensor{
		t("token_embd.weight", rnd("token_embd.weight", nv*D, 1), uint64(nv), uint64(D)),
		t("output_norm.weight", ones(D), uint64(D)),
		t("output.weight", w.out, uint64(nv), uint64(D)),
	}
	for l := 0; l < layers; l++ {
		p := fmt.Sprintf("blk.%d.", l)
		ts = append(ts,
			t(p+"attn_norm.weight", ones(D), uint64(D)),
			t(p+"attn_q.weight", rnd(p+"attn_q", D*D, 0.6), uint64(D), uint64(D)),
			t(p+"attn_k.weight", rnd(p+"attn_k", D*D, 0.6), uint64(D), uint64(D)),
			t(p+"attn_v.weight", rnd(p+"attn_v", D*D, 0.6), uint64(D), uint64(D)),
			t(p+"attn_output.weight", rnd(p+"attn_output", D*D, 0.6), uint64(D), uint64(D)),
			t(p+"ffn_norm.weight", ones(D), uint64(D)),
			t(p+"ffn_gate.weight", rnd(p+"ffn_gate", D*llrFF, 0.5), uint64(llrFF), uint64(D)),
			t(p+"ffn_up.weight", rnd(p+"ffn_up", D*llrFF, 0.5), uint64(llrFF), uint64(D)),
			t(p+"ffn_down.weight", rnd(p+"ffn_down", D*llrFF, 0.5), uint64(D), uint64(llrFF)),
		)
	}
	kv := ggml.KV{
		"general.architecture":                   "llama",
		"general.alignment":                      uint32(32),
		"llama.block_count":                      uint32(layers),
		"llama.context_length":                   uint32(4096),
		"llama.embedding_length":                 uint32(D),
		"llama.feed_forward_length":              uint32(llrFF),
		"llama.attention.head_count":             uint32(llrHeads),
		"llama.attention.head_count_kv":          uint32(llrHeads),
		"llama.attention.layer_norm_rms_epsilon": float32(1e-5),
		"llama.rope.dimension_count":             uint32(D / llrHeads),
		"tokenizer.ggml.model":                   "llama",
		"tokenizer.ggml.tokens":                  v.tokens,
		"tokenizer.ggml.scores":                  make([]float32, nv),
		"tokenizer.ggml.token_type":              v.types,
		"tokenizer.ggml.bos_token_id":            uint32(llrTokBOS),
		"tokenizer.ggml.eos_token_id":            uint32(llrTokEOS),
		"tokenizer.ggml.unknown_token_id":        uint32(llrTokUnk),
		"tokenizer.ggml.add_bos_token":           true,
		"tokenizer.ggml.add_space_prefix":        false,
	}
	f, err := os.Create(path)
	if err != nil {
		return nil, err
	}
	defer f.Close()
	if err := ggml.WriteGGUF(f, kv, ts); err != nil {
		return nil, err
	}
	return w, f.Close()
}

// ------------------------------------------------------------------------------- process state

// llrConfig is what the runner is started with (its command line in production).
type llrConfig struct {
	NumCtx    int  `json:"num_ctx"`  // per slot; the runner gets kvSize = NumCtx * Parallel
	Batch     int  `json:"batch"`    // -batch-size
	Parallel  int  `json:"parallel"` // -parallel
	MultiUser bool `json:"multi_user,omitempty"`
}

// llrCtxKey identifies a llama.cpp context: llama.cpp rounds the context size up to a multiple of
// 32 and the batch size up to 64, so runner configurations that differ below that get the same
// context parameters from llama.cpp's point of view. A context costs ~480 MiB of address space and
// cannot be freed through the Go API: the harnesses keep the number of distinct keys small.
type llrCtxKey struct {
	spec     llrModelSpec
	kvPad    int // num_ctx * parallel rounded up to a multiple of 32
	nBatch   int // max(64, batch * parallel)
	parallel int
}

func llrKey(spec llrModelSpec, cfg llrConfig) llrCtxKey {
	return llrCtxKey{spec: spec, kvPad: (cfg.NumCtx*cfg.Parallel + 31) / 32 * 32, nBatch: max(64, cfg.Batch*cfg.Parallel), parallel: cfg.Parallel}
}

type llrLoaded struct {
	model *llama.Model
	lc    *llama.Context
}

type llrEngine struct {
	dir     string
	vocab   *llrVocab
	paths   map[llrModelSpec]string
	weights map[llrModelSpec]*llrWeights
	ctxs    map[llrCtxKey]*llrLoaded // runner side: created by the runner's own loadModel
	refs    map[llrModelSpec]*llrLoaded
}

var (
	llrOnce sync.Once
	llrEng  *llrEngine
	llrErr  error
)

func llrGet() (*llrEngine, error) {
	llrOnce.Do(func() {
		dir, err := os.MkdirTemp("", "llr")
		if err != nil {
			llrErr = err
			return
		}
		llama.BackendInit()
		llrEng = &llrEngine{dir: dir, vocab: llrBuildVocab(), paths: map[llrModelSpec]string{}, weights: map[llrModelSpec]*llrWeights{},
			ctxs: map[llrCtxKey]*llrLoaded{}, refs: map[llrModelSpec]*llrLoaded{}}
	})
	return llrEng, llrErr
}

func (e *llrEngine) modelPath(spec llrModelSpec) (string, error) {
	if p, ok := e.paths[spec]; ok {
		return p, nil
	}
	p := filepath.Join(e.dir, fmt.Sprintf("%s-%d-%d.gguf", spec.Kind, spec.Seed, spec.Layers))
	w, err := llrWriteModel(p, spec, e.vocab)
	if err != nil {
		return "", err
	}
	e.paths[spec], e.weights[spec] = p, w
	return p, nil
}

const llrRefCtx = 1024

// reference side: a model instance and a context of its own, never touched by a Server
func (e *llrEngine) ref(spec llrModelSpec) (*llrLoaded, error) {
	if r, ok := e.refs[spec]; ok {
		return r, nil
	}
	p, err := e.modelPath(spec)
	if err != nil {
		return nil, err
	}
	m, err := llama.LoadModelFromFile(p, llama.ModelParams{UseMmap: true})
	if err != nil {
		return nil, err
	}
	lc, err := llama.NewContextWithModel(m, llama.NewContextParams(llrRefCtx, 64, 1, 1, false, ""))
	if err != nil {
		return nil, err
	}
	r := &llrLoaded{model: m, lc: lc}
	e.refs[spec] = r
	return r, nil
}

// llrServer is a fresh Server for one case (or one history) over a cached llama.cpp context.
type llrServer struct {
	s       *Server
	e       *llrEngine
	key     llrCtxKey
	cancel  context.CancelFunc
	runDone chan any
}

// server builds the Server the way Execute does. The first Server of a configuration loads model
// and context through the runner's own loadModel; later ones reuse that model/context pair (no
// llama_free in the Go API) under a fresh Server literal, a fresh InputCache and a cleared KV cache.
func (e *llrEngine) server(spec llrModelSpec, cfg llrConfig) (ls *llrServer, err error) {
	key := llrKey(spec, cfg)
	s := &Server{
		batchSize: cfg.Batch,
		parallel:  cfg.Parallel,
		seqs:      make([]*Sequence, cfg.Parallel),
		seqsSem:   semaphore.NewWeighted(int64(cfg.Parallel)),
		status:    llm.ServerStatusLoadingModel,
	}
	kvSize := cfg.NumCtx * cfg.Parallel
	if ld, ok := e.ctxs[key]; ok {
		s.model, s.lc = ld.model, ld.lc
		s.lc.KvCacheClear()
		if s.cache, err = NewInputCache(s.lc, kvSize, cfg.Parallel, cfg.MultiUser); err != nil {
			return nil, err
		}
		s.status = llm.ServerStatusReady
	} else {
		mpath, err := e.modelPath(spec)
		if err != nil {
			return nil, err
		}
		s.ready.Add(1)
		if p := func() (p any) {
			defer func() { p = recover() }()
			s.loadModel(llama.ModelParams{UseMmap: true}, mpath, nil, "", kvSize, "", false, 1, cfg.MultiUser)
			return nil
		}(); p != nil {
			return nil, fmt.Errorf("loadModel panicked: %v", p)
		}
		e.ctxs[key] = &llrLoaded{model: s.model, lc: s.lc}
	}
	s.cond = sync.NewCond(&s.mu)
	ctx, cancel := context.WithCancel(context.Background())
	ls = &llrServer{s: s, e: e, key: key, cancel: cancel, runDone: make(chan any, 1)}
	go func() {
		defer func() { ls.runDone <- recover() }()
		s.run(ctx)
	}()
	return ls, nil
}

// taint forgets the cached context: a Server that did not shut down cleanly may still use it.
func (ls *llrServer) taint() { delete(ls.e.ctxs, ls.key) }

// stop ends Server.run: the loop only looks at its context between two batches and sleeps in
// cond.Wait while there is no sequence, so it is handed one that is already past its limit.
// It returns what every slot records.
func (ls *llrServer) stop() (slots [][]int, err error) {
	s := ls.s
	ls.cancel()
	s.mu.Lock()
	free := true
	for i := range s.seqs {
		if s.seqs[i] != nil {
			free = false
		}
	}
	for i := range s.cache.slots {
		if s.cache.slots[i].InUse {
			free = false
		}
		var rec []int
		for _, in := range s.cache.slots[i].Inputs {
			rec = append(rec, in.token)
		}
		slots = append(slots, rec)
	}
	if free && s.seqsSem.TryAcquire(int64(s.parallel)) {
		s.seqsSem.Release(int64(s.parallel) - 1)
		slot := &s.cache.slots[0]
		slot.InUse = true
		s.seqs[0] = &Sequence{numPredict: 1, numPredicted: 1, cache: slot, pendingResponses: []string{},
			responses: make(chan string, 1), embedding: make(chan []float32, 1), quit: make(chan bool, 1)}
		s.cond.Signal()
	} else {
		err = errors.New("every request has ended but a sequence entry, a cache slot or a semaphore unit is still taken")
	}
	s.mu.Unlock()
	if err != nil {
		ls.taint()
		return slots, err
	}
	select {
	case p := <-ls.runDone:
		if p != nil {
			ls.taint()
			return slots, fmt.Errorf("Server.run panicked: %v", p)
		}
	case <-time.After(60 * time.Second):
		ls.taint()
		return slots, errors.New("harness: run loop did not stop")
	}
	return slots, nil
}

// ---------------------------------------------------------------------------------- one request

type llrLine struct {
	Content    string `json:"content"`
	Done       bool   `json:"done"`
	DoneReason int    `json:"done_reason"`
	PromptEval int    `json:"prompt_eval_count"`
	EvalCount  int    `json:"eval_count"`
}

type llrRequest struct {
	Prompt  string
	Grammar string
	Options api.Options
}

// llrSlowWriter is the response writer of a client that stops reading for a while: from the
// stallAfter-th chunk on, Write blocks (as it does on a full TCP send buffer) until the gate opens.
type llrSlowWriter struct {
	*httptest.ResponseRecorder
	writes, stallAfter int
	gate               chan struct{}
}

func (w *llrSlowWriter) Write(b []byte) (int, error) {
	if w.writes >= w.stallAfter {
		<-w.gate
	}
	w.writes++
	return w.ResponseRecorder.Write(b)
}

// llrSlow describes a slow client. Server, request and stop must then run inside one
// testing/synctest bubble: synctest.Wait() is the exact "nothing can move any more" signal (run
// loop blocked on the full response buffer or idle, handler blocked in Write) at which the client
// starts reading again - no sleep, no wall clock; the watchdogs run on the bubble's virtual clock.
type llrSlow struct {
	stallAfter int
	blocked    bool // out: the sequence was still alive when the client resumed
}

// complete posts one request to the real completion handler and waits for the handler to return.
func (ls *llrServer) complete(r llrRequest, slow *llrSlow) (lines []llrLine, status int, err error) {
	body, err := json.Marshal(llm.CompletionRequest{Prompt: r.Prompt, Grammar: r.Grammar, Options: &r.Options})
	if err != nil {
		return nil, 0, fmt.Errorf("harness: %v", err)
	}
	rr := httptest.NewRecorder()
	var w http.ResponseWriter = rr
	var sw *llrSlowWriter
	if slow != nil {
		sw = &llrSlowWriter{ResponseRecorder: rr, stallAfter: slow.stallAfter, gate: make(chan struct{})}
		w = sw
	}
	req := httptest.NewRequest(http.MethodPost, "/completion", bytes.NewReader(body))
	handlerDone := make(chan any, 1)
	go func() {
		defer func() { handlerDone <- recover() }()
		ls.s.completion(w, req)
	}()
	if sw != nil {
		synctest.Wait() // every goroutine of the bubble is durably blocked (or gone)
		for _, sq := range ls.s.seqs { // no lock: nothing runs, and a blocked run loop holds s.mu
			slow.blocked = slow.blocked || sq != nil
		}
		close(sw.gate)
	}
	select {
	case p := <-handlerDone:
		if p != nil {
			ls.taint()
			return nil, 0, fmt.Errorf("the completion handler panicked: %v", p)
		}
	case p := <-ls.runDone:
		ls.taint()
		ls.runDone <- p
		return nil, 0, fmt.Errorf("Server.run ended while the request was being served: panic %v", p)
	case <-time.After(60 * time.Second):
		ls.taint()
		return nil, 0, errors.New("no final message: the handler has not returned after 60 s")
	}
	return llrDecodeLines(rr)
}

func llrBody(r llrRequest) (*bytes.Reader, error) {
	body, err := json.Marshal(llm.CompletionRequest{Prompt: r.Prompt, Grammar: r.Grammar, Options: &r.Options})
	if err != nil {
		return nil, fmt.Errorf("harness: %v", err)
	}
	return bytes.NewReader(body), nil
}

func llrDecodeLines(rr *httptest.ResponseRecorder) (lines []llrLine, status int, err error) {
	status = rr.Code
	if status != http.StatusOK {
		return nil, status, nil
	}
	dec := json.NewDecoder(rr.Body)
	for dec.More() {
		var l llrLine
		if e := dec.Decode(&l); e != nil {
			return nil, status, fmt.Errorf("response stream is not NDJSON: %v (body %q)", e, rr.Body.String())
		}
		lines = append(lines, l)
	}
	return lines, status, nil
}

// ------------------------------------------------------------------------------------ reference

func llrSamplingParams(o api.Options, grammar string) llama.SamplingParams {
	// the mapping the completion handler applies to the request's options
	return llama.SamplingParams{
		TopK: o.TopK, TopP: o.TopP, MinP: o.MinP, TypicalP: o.TypicalP, Temp: o.Temperature,
		RepeatLastN: o.RepeatLastN, PenaltyRepeat: o.RepeatPenalty, PenaltyFreq: o.FrequencyPenalty, PenaltyPresent: o.PresencePenalty,
		Mirostat: o.Mirostat, MirostatTau: o.MirostatTau, MirostatEta: o.MirostatEta, Seed: uint32(o.Seed), Grammar: grammar,
	}
}

type llrGenerated struct {
	prompt []int    // tokens of the prompt (with BOS)
	tokens []int    // generated tokens, without the end-of-generation token
	pieces []string // their text
	eog    bool     // the token after them was an end-of-generation token
}

// llrReference generates with a plain loop: evaluate the prompt, then sample / accept / evaluate
// one token at a time until an end-of-generation token or `limit` sampled tokens (limit <= 0: no
// limit; hardCap guards the harness against a request that never ends).
func (e *llrEngine) llrReference(spec llrModelSpec, r llrRequest, limit, hardCap int) (g llrGenerated, err error) {
	ref, err := e.ref(spec)
	if err != nil {
		return g, fmt.Errorf("harness: %v", err)
	}
	m, lc := ref.model, ref.lc
	if g.prompt, err = m.Tokenize(r.Prompt, true, true); err != nil {
		return g, fmt.Errorf("harness: tokenize: %v", err)
	}
	if len(g.prompt) == 0 || len(g.prompt)+hardCap+1 > llrRefCtx {
		return g, fmt.Errorf("harness: prompt of %d tokens", len(g.prompt))
	}
	sc, err := llama.NewSamplingContext(m, llrSamplingParams(r.Options, r.Grammar))
	if err != nil {
		return g, fmt.Errorf("harness: sampling context: %v (grammar %q)", err, r.Grammar)
	}
	for _, t := range g.prompt {
		sc.Accept(t, false)
	}
	lc.KvCacheClear()
	batch, err := llama.NewBatch(64, 1, 0)
	if err != nil {
		return g, fmt.Errorf("harness: %v", err)
	}
	defer batch.Free()
	pos := 0
	for len(g.prompt)-pos > 0 { // the prompt, 64 tokens at a time
		batch.Clear()
		for i := 0; i < 64 && pos < len(g.prompt); i++ {
			batch.Add(g.prompt[pos], nil, pos, pos == len(g.prompt)-1, 0)
			pos++
		}
		if err := lc.Decode(batch); err != nil {
			return g, fmt.Errorf("harness: reference decode: %v", err)
		}
	}
	for n := 0; limit <= 0 || n < limit; n++ {
		if n >= hardCap {
			return g, fmt.Errorf("harness: the reference generation has not ended after %d tokens", n)
		}
		t := sc.Sample(lc, batch.NumTokens()-1)
		sc.Accept(t, true)
		if m.TokenIsEog(t) {
			g.eog = true
			break
		}
		g.tokens = append(g.tokens, t)
		g.pieces = append(g.pieces, m.TokenToPiece(t))
		batch.Clear()
		batch.Add(t, nil, pos, true, 0)
		pos++
		if err := lc.Decode(batch); err != nil {
			return g, fmt.Errorf("harness: reference decode: %v", err)
		}
	}
	return g, nil
}

// llrNearest maps v to the largest allowed value <= v (the first one if there is none): shrunk or
// hand-written cases may hold anything, and the number of distinct llama.cpp contexts must stay small.
func llrNearest(v int, allowed []int) int {
	best := allowed[0]
	for _, a := range allowed {
		if v >= a {
			best = a
		}
	}
	return best
}

// llrGrammarLiteral writes s as a GBNF string literal.
func llrGrammarLiteral(s string) string {
	var sb strings.Builder
	sb.WriteByte('"')
	for _, r := range s {
		if (r >= 'a' && r <= 'z') || (r >= 'A' && r <= 'Z') || (r >= '0' && r <= '9') || r == ' ' {
			sb.WriteRune(r)
		} else {
			fmt.Fprintf(&sb, "\\U%08X", r)
		}
	}
	sb.WriteByte('"')
	return sb.String()
}

// ------------------------------------------------------------------- reference with margins (C07)

// llrRefSeq evaluates token sequences from scratch on the reference context and computes the
// logits itself: llama.cpp hands out the final hidden state of a token (the runner's contexts and
// this one are created with embeddings enabled), the harness multiplies it with the output.weight
// it wrote into the model file. The winner and its distance to the runner-up are therefore known
// without llama.cpp's sampler, and independent of anything a runner has cached.
type llrRefSeq struct {
	e   *llrEngine
	ref *llrLoaded
	w   *llrWeights
	cur []int // tokens whose K/V the reference context holds, at positions 0..len-1
}

func (e *llrEngine) refSeq(spec llrModelSpec) (*llrRefSeq, error) {
	ref, err := e.ref(spec)
	if err != nil {
		return nil, err
	}
	ref.lc.KvCacheClear()
	return &llrRefSeq{e: e, ref: ref, w: e.weights[spec]}, nil
}

// logits evaluates `tokens` as a fresh sequence at positions 0..n-1 and returns the logits after the last one.
func (r *llrRefSeq) logits(tokens []int) ([]float64, error) {
	if len(tokens) == 0 || len(tokens) > llrRefCtx {
		return nil, fmt.Errorf("harness: reference sequence of %d tokens", len(tokens))
	}
	from := 0
	if len(r.cur) < len(tokens) && slicesEqualInts(r.cur, tokens[:len(r.cur)]) {
		from = len(r.cur)
	} else {
		r.ref.lc.KvCacheClear()
	}
	batch, err := llama.NewBatch(64, 1, 0)
	if err != nil {
		return nil, err
	}
	defer batch.Free()
	for from < len(tokens) {
		batch.Clear()
		for i := 0; i < 64 && from < len(tokens); i++ {
			batch.Add(tokens[from], nil, from, from == len(tokens)-1, 0)
			from++
		}
		if err := r.ref.lc.Decode(batch); err != nil {
			r.cur = nil
			return nil, fmt.Errorf("harness: reference decode: %v", err)
		}
	}
	r.cur = append(r.cur[:0], tokens...)
	return r.w.head(r.ref.lc.GetEmbeddingsIth(batch.NumTokens() - 1))
}

// head multiplies a final hidden state with output.weight (in float64).
func (w *llrWeights) head(h []float32) ([]float64, error) {
	if len(h) != llrEmbd {
		return nil, fmt.Errorf("harness: no hidden state from the context (%d values)", len(h))
	}
	out := make([]float64, w.nVocab)
	for id := range out {
		for d := 0; d < llrEmbd; d++ {
			out[id] += float64(w.out[id*llrEmbd+d]) * float64(h[d])
		}
	}
	return out, nil
}

// next returns the token with the largest logit after `tokens` and the margin to the second largest.
func (r *llrRefSeq) next(tokens []int) (tok int, margin float64, err error) {
	ls, err := r.logits(tokens)
	if err != nil {
		return 0, 0, err
	}
	best, second := math.Inf(-1), math.Inf(-1)
	for id, l := range ls {
		if l > best {
			best, second, tok = l, best, id
		} else if l > second {
			second = l
		}
	}
	return tok, best - second, nil
}

func slicesEqualInts(a, b []int) bool {
	if len(a) != len(b) {
		return false
	}
	for i := range a {
		if a[i] != b[i] {
			return false
		}
	}
	return true
}
