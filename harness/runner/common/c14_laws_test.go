package common

// C14, second (cheap) target: laws of the pure functions the streaming loop is built from
// (runner/common/stop.go), checked on generated inputs instead of ten literals.
//
//	FindStop            found  <=> some stop string occurs; the one returned occurs; the text before
//	                    its first occurrence contains no stop string (what the caller cuts off there
//	                    is what gets returned to the user)
//	ContainsStopSuffix  true   <=> the text ends with a non-empty prefix of some stop string
//	                    (so: withheld exactly while a stop string may still be completed)
//	TruncateStop        no occurrence: pieces unchanged, false; else the pieces re-join to the text
//	                    before the first occurrence, every returned piece is the original piece
//	                    except a shortened last one, truncated <=> the last one was shortened
//	IncompleteUnicode   for valid UTF-8 cut at any byte offset: true <=> the cut is inside a
//	                    character; for arbitrary bytes: true only if the text ends with a lead
//	                    byte followed by fewer continuation bytes than it announces

import (
	"encoding/json"
	"fmt"
	"os"
	"slices"
	"strconv"
	"strings"
	"testing"
	"unicode/utf8"

	"pgregory.net/rapid"
	"verif.local/vfkit"
)

const c14lKnownListOrder = "findstop-list-order" // see harness/runner/ollamarunner/c14_run_test.go

type c14lB string // byte string that survives JSON (%XX for everything outside printable ASCII)

func (b c14lB) MarshalJSON() ([]byte, error) {
	var sb strings.Builder
	for i := 0; i < len(b); i++ {
		if c := b[i]; c < 0x20 || c > 0x7e || c == '%' || c == '"' || c == '\\' {
			fmt.Fprintf(&sb, "%%%02X", c)
		} else {
			sb.WriteByte(c)
		}
	}
	return json.Marshal(sb.String())
}

func (b *c14lB) UnmarshalJSON(data []byte) error {
	var s string
	if err := json.Unmarshal(data, &s); err != nil {
		return err
	}
	var out []byte
	for i := 0; i < len(s); i++ {
		if s[i] != '%' {
			out = append(out, s[i])
			continue
		}
		if i+3 > len(s) {
			return fmt.Errorf("bad escape in %q", s)
		}
		v, err := strconv.ParseUint(s[i+1:i+3], 16, 8)
		if err != nil {
			return fmt.Errorf("bad escape in %q", s)
		}
		out = append(out, byte(v))
		i += 2
	}
	*b = c14lB(out)
	return nil
}

type c14lCase struct {
	Pieces []c14lB `json:"pieces"`
	Stops  []c14lB `json:"stops"`
}

type c14lInfo struct {
	nontrivial bool
	classes    []string
	excluded   bool
}

func c14lRun(c c14lCase, known func(string) bool) (info c14lInfo, err error) {
	cls := map[string]bool{}
	defer func() {
		for k := range cls {
			info.classes = append(info.classes, "law_"+k)
		}
		slices.Sort(info.classes)
		info.nontrivial = cls["stop_straddles_pieces"] || cls["cut_inside_character"]
	}()
	pieces := make([]string, len(c.Pieces))
	for i, p := range c.Pieces {
		pieces[i] = string(p)
	}
	stops := make([]string, len(c.Stops))
	for i, s := range c.Stops {
		stops[i] = string(s)
	}
	text := strings.Join(pieces, "")

	// ---- FindStop
	found, st := FindStop(text, stops)
	first := -1
	for _, s := range stops {
		if i := strings.Index(text, s); i >= 0 && (first < 0 || i < first) {
			first = i
		}
	}
	if found != (first >= 0) {
		return info, fmt.Errorf("FindStop(%q, %q) = %v, but a stop string occurs: %v", text, stops, found, first >= 0)
	}
	if found {
		cls["stop_occurs"] = true
		if !slices.Contains(stops, st) || !strings.Contains(text, st) {
			return info, fmt.Errorf("FindStop(%q, %q) returns %q, which is not an occurring stop string", text, stops, st)
		}
		i := strings.Index(text, st)
		if i != first {
			cls["not_first_occurrence"] = true
		}
		leaves := ""
		for _, s := range stops {
			if strings.Contains(text[:i], s) {
				leaves = s
			}
		}
		if i != first && leaves != "" {
			cls["class_"+c14lKnownListOrder] = true
			if known(c14lKnownListOrder) {
				info.excluded = true
			} else {
				return info, fmt.Errorf("FindStop(%q, %q) returns %q (at byte %d) although another stop string occurs earlier (at byte %d): the text before it, %q, still contains stop string %q",
					text, stops, st, i, first, text[:i], leaves)
			}
		}
	} else if st != "" {
		return info, fmt.Errorf("FindStop(%q, %q) = false, %q", text, stops, st)
	}

	// ---- ContainsStopSuffix
	want := false
	for _, s := range stops {
		for i := 1; i <= len(s); i++ {
			if strings.HasSuffix(text, s[:i]) {
				want = true
			}
		}
	}
	if got := ContainsStopSuffix(text, stops); got != want {
		return info, fmt.Errorf("ContainsStopSuffix(%q, %q) = %v, want %v", text, stops, got, want)
	}
	if want {
		cls["tail_is_stop_prefix"] = true
	}
	// completeness seen from the stream: while a stop string that ends later has begun, the text is withheld
	if first >= 0 {
		for _, s := range stops {
			i := strings.Index(text, s)
			if i < 0 {
				continue
			}
			for cut := i + 1; cut < i+len(s); cut++ {
				if ok, _ := FindStop(text[:cut], stops); !ok && !ContainsStopSuffix(text[:cut], stops) {
					return info, fmt.Errorf("text %q, stops %q: after %q neither a stop string is found nor is the tail recognised as the beginning of %q: it would be streamed", text, stops, text[:cut], s)
				}
			}
		}
	}

	// ---- TruncateStop, for every stop string
	off, bounds := 0, map[int]bool{}
	for _, p := range pieces {
		off += len(p)
		bounds[off] = true
	}
	for _, s := range stops {
		orig := slices.Clone(pieces)
		res, trunc := TruncateStop(pieces, s)
		if !slices.Equal(pieces, orig) {
			return info, fmt.Errorf("TruncateStop(%q, %q) modified its argument: %q", orig, s, pieces)
		}
		idx := strings.Index(text, s)
		if idx < 0 {
			if trunc || !slices.Equal(res, pieces) {
				return info, fmt.Errorf("TruncateStop(%q, %q) = %q, %v although the stop string does not occur", pieces, s, res, trunc)
			}
			continue
		}
		for b := range bounds {
			if b > idx && b < idx+len(s) {
				cls["stop_straddles_pieces"] = true
			}
		}
		if got := strings.Join(res, ""); got != text[:idx] {
			return info, fmt.Errorf("TruncateStop(%q, %q) = %q, which joins to %q, want %q", pieces, s, res, got, text[:idx])
		}
		if len(res) > len(pieces) {
			return info, fmt.Errorf("TruncateStop(%q, %q) = %q: more pieces than before", pieces, s, res)
		}
		shortened := false
		for i, r := range res {
			switch {
			case r == pieces[i]:
			case i == len(res)-1 && strings.HasPrefix(pieces[i], r):
				shortened = true
			default:
				return info, fmt.Errorf("TruncateStop(%q, %q) = %q: piece %d is not the original piece (or, for the last one, its beginning)", pieces, s, res, i)
			}
		}
		if trunc != shortened {
			return info, fmt.Errorf("TruncateStop(%q, %q) = %q, truncated=%v, but the last piece was shortened: %v", pieces, s, res, trunc, shortened)
		}
		if trunc {
			cls["piece_truncated"] = true
		}
	}

	// ---- IncompleteUnicode at every byte offset
	validText := utf8.ValidString(text)
	for cut := 0; cut <= len(text); cut++ {
		head := text[:cut]
		got := IncompleteUnicode(head)
		if validText {
			inside := !utf8.ValidString(head)
			if inside {
				cls["cut_inside_character"] = true
			}
			if got != inside {
				return info, fmt.Errorf("IncompleteUnicode(%q) = %v; the text is %q cut at byte %d, inside a character: %v", head, got, text, cut, inside)
			}
			continue
		}
		cls["invalid_utf8"] = true
		if got {
			// must end with lead byte + fewer continuation bytes than announced
			i := len(head) - 1
			for i >= 0 && head[i]&0xc0 == 0x80 {
				i--
			}
			need := 0
			if i >= 0 {
				switch {
				case head[i]&0xe0 == 0xc0:
					need = 2
				case head[i]&0xf0 == 0xe0:
					need = 3
				case head[i]&0xf8 == 0xf0:
					need = 4
				}
			}
			if need == 0 || len(head)-i >= need {
				return info, fmt.Errorf("IncompleteUnicode(%q) = true, but the text does not end with the beginning of a multi-byte character", head)
			}
		}
	}
	return info, nil
}

var c14lAtoms = []string{"a", "b", "c", " ", "ab", "é", "è", "日", "€", "本", "😀", "ß", "\n"}

func c14lGen(t *rapid.T) c14lCase {
	var c c14lCase
	atoms := rapid.SliceOfN(rapid.SampledFrom(c14lAtoms), 0, 12).Draw(t, "atoms")
	text := strings.Join(atoms, "")
	if rapid.IntRange(0, 7).Draw(t, "invalid") == 0 {
		at := rapid.IntRange(0, len(text)).Draw(t, "bad_at")
		bad := rapid.SampledFrom([]string{"\xff", "\x80", "\xc3", "\xe6\x97", "\xf0\x9f", "\xc0\xaf", "\x80\x80\x80\x80\x80"}).Draw(t, "bad")
		text = text[:at] + bad + text[at:]
	}
	ncut := rapid.IntRange(0, min(len(text)+1, 8)).Draw(t, "cuts")
	cuts := make([]int, ncut)
	for i := range cuts {
		cuts[i] = rapid.IntRange(0, len(text)).Draw(t, "cut")
	}
	slices.Sort(cuts)
	prev := 0
	for _, x := range cuts {
		c.Pieces = append(c.Pieces, c14lB(text[prev:x]))
		prev = x
	}
	c.Pieces = append(c.Pieces, c14lB(text[prev:]))
	runes := []rune(strings.Join(atoms, ""))
	ns := rapid.IntRange(0, 3).Draw(t, "stops")
	for i := 0; i < ns; i++ {
		var st string
		if len(runes) > 0 && rapid.IntRange(0, 3).Draw(t, "occurs") > 0 {
			a := rapid.IntRange(0, len(runes)-1).Draw(t, "from")
			l := rapid.IntRange(1, min(4, len(runes)-a)).Draw(t, "len")
			st = string(runes[a : a+l])
			if rapid.IntRange(0, 3).Draw(t, "extend") == 0 {
				st += rapid.SampledFrom(c14lAtoms).Draw(t, "ext")
			}
		} else {
			st = strings.Join(rapid.SliceOfN(rapid.SampledFrom(c14lAtoms), 1, 3).Draw(t, "stop_atoms"), "")
		}
		c.Stops = append(c.Stops, c14lB(st))
	}
	return c
}

func c14lAssumed(name string) bool {
	return slices.Contains(strings.Split(os.Getenv("VERIF_ASSUME_KNOWN"), ","), name)
}

func TestC14StopLaws(t *testing.T) {
	const target = "TestC14StopLaws"
	rec := vfkit.Open(target)
	defer rec.Flush()
	var rc c14lCase
	if rp, ok, err := vfkit.ReplayCase(target, &rc); ok {
		if err != nil {
			t.Fatalf("replay: %v", err)
		}
		info, err := c14lRun(rc, func(string) bool { return false })
		if err != nil {
			if slug, isKnown := strings.CutPrefix(rp.Expect, "known:"); isKnown && slug == c14lKnownListOrder && slices.Contains(info.classes, "law_class_"+slug) {
				rec.KnownHit(slug, err.Error())
				if c14lAssumed(slug) {
					t.Logf("KNOWN-FINDING (assumed): property=C14 %v", err)
					return
				}
			}
			rec.Fail(target, rc, err.Error())
			t.Fatalf("C14 violated: %v", err)
		}
		return
	}
	rapid.Check(t, func(rt *rapid.T) {
		if rec.OverBudget() {
			return
		}
		c := c14lGen(rt)
		info, err := c14lRun(c, rec.Known)
		if info.excluded {
			rec.Excluded(c14lKnownListOrder)
		}
		rec.Case(c, info.nontrivial, info.classes...)
		if err != nil {
			rec.Fail(target, c, err.Error())
			rt.Fatalf("C14 violated: %v", err)
		}
	})
}
