package common

// Native coverage-guided fuzz target for C14's pure laws (thorough tier only): an arbitrary byte string cut into
// pieces at positions derived from the fuzzed integers, with up to three non-empty stop strings, through c14lRun.

import (
	"testing"
)

func FuzzC14StopLaws(f *testing.F) {
	f.Add("hello world", uint64(0x0102030405), "wor", "", "")
	f.Add("日本語のテキスト", uint64(0x0305070b0d), "本語", "キ", "x")
	f.Add("ab\xe6\x97", uint64(1), "b", "\xe6", "")
	f.Add("aaa bbb ccc", uint64(0xffffffffffffffff), " b", "bb c", "ccc")
	f.Add("stop</s>", uint64(0x0706050403020100), "</s>", "</", "s>")
	f.Fuzz(func(t *testing.T, text string, cuts uint64, s1, s2, s3 string) {
		if len(text) > 512 || len(s1)+len(s2)+len(s3) > 96 {
			t.Skip()
		}
		var c c14lCase
		prev := 0
		for i := 0; i < 8 && prev < len(text); i++ {
			step := int(cuts>>(8*i)) & 0xff
			if step == 0 {
				continue
			}
			x := min(len(text), prev+1+(step-1)%max(1, len(text)/3+1))
			c.Pieces = append(c.Pieces, c14lB(text[prev:x]))
			prev = x
		}
		c.Pieces = append(c.Pieces, c14lB(text[prev:]))
		for _, s := range []string{s1, s2, s3} {
			if s != "" { // callers never pass an empty stop string on to the runner's stop logic in the generated domain
				c.Stops = append(c.Stops, c14lB(s))
			}
		}
		if _, err := c14lRun(c, func(string) bool { return false }); err != nil {
			t.Fatalf("C14 violated: %v", err)
		}
	})
}
