package kvcache

import (
	"os"
	"strings"
	"testing"

	"pgregory.net/rapid"
	"verif.local/vfkit"
)

// TestC06CausalHistory — see c06_model_test.go.
func TestC06CausalHistory(t *testing.T) {
	const target = "TestC06CausalHistory"
	rec := vfkit.Open(target)
	defer rec.Flush()
	var rc c06Case
	if rp, ok, err := vfkit.ReplayCase(target, &rc); ok {
		if err != nil {
			t.Fatalf("replay: %v", err)
		}
		// a replay demonstrates its own finding: that finding is not excluded while it runs
		own := ""
		if rp != nil {
			own = strings.TrimPrefix(rp.Expect, "known:")
		}
		known := func(s string) bool { return s != own && rec.Known(s) }
		info, err := c06Run(rc, known, func(string) {})
		t.Logf("classes: %v", info.classes)
		if err != nil {
			// development aid: with VERIF_ASSUME_KNOWN=<own> (not with a real known_findings.json entry, which the driver
			// reports as KNOWN-FINDING from the failing exit code) the expected failure of the finding's own replay passes
			for _, n := range strings.Split(os.Getenv("VERIF_ASSUME_KNOWN"), ",") {
				if n != "" && n == own {
					rec.KnownHit(own, err.Error())
					t.Logf("assumed-known finding %s reproduced: %v", own, err)
					return
				}
			}
			rec.Fail(target, rc, err.Error())
			t.Fatalf("C06 violated: %v", err)
		}
		return
	}
	rapid.Check(t, func(rt *rapid.T) {
		if rec.OverBudget() {
			return
		}
		c := c06Gen(rt)
		info, err := c06Run(c, rec.Known, rec.Excluded)
		rec.Case(c, info.nontrivial, info.classes...)
		if err != nil {
			rec.Fail(target, c, err.Error())
			rt.Fatalf("C06 violated: %v", err)
		}
	})
}
