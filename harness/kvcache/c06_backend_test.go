package kvcache

// C06 — harness backend: a small strided float32 tensor implementation with ggml's semantics for the
// handful of operations kvcache uses (see /verif/DESIGN.md §3 C06).
//
//   - ml.Backend / ml.Context / ml.Tensor are implemented by embedding the interfaces: every method
//     that is not written out below is a nil interface call, which c06Run reports as
//     "harness backend: unimplemented ml method" together with the top of the stack.
//   - Storage is []float32 whatever the dtype; the dtype only decides the element size used for byte
//     strides and byte offsets (f32/i32 4, f16 2), so a byte/element mix-up in the cache is visible.
//   - Shapes, strides, View (1/2/3/4-d with byte strides and a byte offset), Permute and Copy (element
//     order = logical order of each side, shapes may differ, element counts must match) follow ggml.
//   - Execution is lazy like ggml's: Copy and the harness's shift function only create graph nodes;
//     Context.Forward schedules a node and everything it depends on; Context.Compute runs the
//     scheduled nodes in order (again on every call, like ggml). A copy that is never forwarded or a
//     context that is never computed therefore has no effect.
//   - Contexts created by the cache itself (Backend.NewContext / NewContextSize) enforce their node
//     budget and panic when used after Close.

import (
	"fmt"
	"math"

	"github.com/ollama/ollama/ml"
)

const (
	c06PhaseIdle = iota
	c06PhaseStartForward
	c06PhaseRemove
)

type c06Stats struct {
	internalCtx int           // Backend.NewContext calls in the current phase
	keyMoves    map[int][]int // per layer: lengths (in cells) of the key copies made inside cache-created contexts during StartForward
	shiftCalls  int
	computes    int
}

type c06Backend struct {
	ml.Backend

	maxNodes int
	cfg      ml.CacheConfig // what CacheConfig() answers (see c06BackendCfg)

	phase int
	stats c06Stats

	kdim, heads int
}

// c06BackendCfg additionally implements ml.BackendCacheConfig.
type c06BackendCfg struct {
	*c06Backend
}

func (b c06BackendCfg) CacheConfig() ml.CacheConfig { return b.cfg }

func (b *c06Backend) NewContext() ml.Context {
	b.stats.internalCtx++
	return &c06Ctx{b: b, internal: true, size: b.maxNodes, layer: -1}
}

func (b *c06Backend) NewContextSize(n int) ml.Context {
	if n > b.maxNodes {
		panic(fmt.Errorf("c06 backend: requested number of graph nodes (%v) for new context exceeds maximum (%v)", n, b.maxNodes))
	}
	return &c06Ctx{b: b, internal: true, size: n, layer: -1}
}

// harnessCtx is the context of a forward pass (what the runner creates with Backend.NewContext; the
// harness uses a separate constructor so that contexts created by the cache can be told apart).
func (b *c06Backend) harnessCtx() *c06Ctx {
	return &c06Ctx{b: b, size: math.MaxInt, layer: -1}
}

type c06Buf struct {
	data  []float32
	layer int // >= 0: allocated through NewContextSize(..).Layer(layer)
	role  int // 0 first allocation of that context (keys), 1 second (values), -1 other
}

type c06Ctx struct {
	ml.Context

	b        *c06Backend
	internal bool
	size     int
	created  int
	closed   bool
	layer    int
	allocs   int

	graph   []*c06Tensor
	inGraph map[*c06Tensor]bool
}

func (c *c06Ctx) use() {
	if c.closed {
		panic("c06 backend: context used after Close")
	}
}

func (c *c06Ctx) node() {
	c.use()
	c.created++
	if c.internal && c.created > c.size {
		panic(fmt.Errorf("c06 backend: context of size %d asked for tensor #%d (graph node budget exceeded)", c.size, c.created))
	}
}

func c06ElemSize(dtype ml.DType) int {
	switch dtype {
	case ml.DTypeF32, ml.DTypeI32:
		return 4
	case ml.DTypeF16:
		return 2
	default:
		panic(fmt.Errorf("c06 backend: unsupported dtype %v", dtype))
	}
}

func (c *c06Ctx) newTensor(dtype ml.DType, shape []int, fill float32) *c06Tensor {
	c.node()
	if len(shape) < 1 || len(shape) > 4 {
		panic(fmt.Errorf("c06 backend: unsupported number of dimensions %v", shape))
	}
	t := &c06Tensor{dtype: dtype, esz: c06ElemSize(dtype)}
	total := 1
	for i := range 4 {
		t.ne[i] = 1
		if i < len(shape) {
			if shape[i] < 1 {
				panic(fmt.Errorf("c06 backend: invalid shape %v", shape))
			}
			t.ne[i] = shape[i]
		}
		total *= t.ne[i]
	}
	t.nb[0] = t.esz
	for i := 1; i < 4; i++ {
		t.nb[i] = t.nb[i-1] * t.ne[i-1]
	}
	t.buf = &c06Buf{data: make([]float32, total), layer: -1, role: -1}
	if c.internal && c.layer >= 0 {
		t.buf.layer = c.layer
		t.buf.role = c.allocs
	}
	c.allocs++
	if fill != 0 {
		for i := range t.buf.data {
			t.buf.data[i] = fill
		}
	}
	return t
}

// Empty memory is poisoned so that reading something never written is visible.
func (c *c06Ctx) Empty(dtype ml.DType, shape ...int) ml.Tensor {
	return c.newTensor(dtype, shape, float32(math.NaN()))
}

func (c *c06Ctx) Zeros(dtype ml.DType, shape ...int) ml.Tensor {
	return c.newTensor(dtype, shape, 0)
}

func c06CheckShape(n int, shape []int) error {
	if n == 0 {
		return nil
	}
	p := 1
	for _, v := range shape {
		p *= v
	}
	if p != n {
		return fmt.Errorf("invalid shape: %v for %d elements", shape, n)
	}
	return nil
}

func (c *c06Ctx) FromFloatSlice(s []float32, shape ...int) (ml.Tensor, error) {
	if err := c06CheckShape(len(s), shape); err != nil {
		return nil, err
	}
	t := c.newTensor(ml.DTypeF32, shape, 0)
	copy(t.buf.data, s)
	return t, nil
}

func (c *c06Ctx) FromIntSlice(s []int32, shape ...int) (ml.Tensor, error) {
	if err := c06CheckShape(len(s), shape); err != nil {
		return nil, err
	}
	t := c.newTensor(ml.DTypeI32, shape, 0)
	for i, v := range s {
		t.buf.data[i] = float32(v)
	}
	return t, nil
}

func (c *c06Ctx) Input() ml.Context { return c }

func (c *c06Ctx) Layer(l int) ml.Context {
	c.layer = l
	return c
}

func (c *c06Ctx) MaxGraphNodes() int { return c.size }

func (c *c06Ctx) Reserve() error { return nil }

func (c *c06Ctx) Close() { c.closed = true }

func (c *c06Ctx) expand(t *c06Tensor) {
	if t == nil || c.inGraph[t] {
		return
	}
	c.inGraph[t] = true
	for _, d := range t.deps {
		c.expand(d)
	}
	if t.run != nil {
		c.graph = append(c.graph, t)
	}
}

func (c *c06Ctx) Forward(tensors ...ml.Tensor) ml.Context {
	c.use()
	if c.inGraph == nil {
		c.inGraph = map[*c06Tensor]bool{}
	}
	for _, t := range tensors {
		if t == nil {
			panic("c06 backend: Forward(nil tensor)")
		}
		c.expand(t.(*c06Tensor))
	}
	return c
}

func (c *c06Ctx) Compute(tensors ...ml.Tensor) {
	c.use()
	c.b.stats.computes++
	for _, t := range c.graph {
		t.run()
	}
}

type c06Tensor struct {
	ml.Tensor

	buf   *c06Buf
	off   int // element offset of the first element inside buf.data
	ne    [4]int
	nb    [4]int // byte strides
	esz   int
	dtype ml.DType

	deps []*c06Tensor
	run  func()
}

func (t *c06Tensor) Dim(n int) int    { return t.ne[n] }
func (t *c06Tensor) Stride(n int) int { return t.nb[n] }

func (t *c06Tensor) Shape() []int {
	n := 1
	for i := 3; i >= 1; i-- {
		if t.ne[i] > 1 {
			n = i + 1
			break
		}
	}
	return append([]int{}, t.ne[:n]...)
}

func (t *c06Tensor) DType() ml.DType { return t.dtype }

func (t *c06Tensor) nelem() int { return t.ne[0] * t.ne[1] * t.ne[2] * t.ne[3] }

// index returns the position in buf.data of the idx-th element in logical (dimension 0 fastest) order.
func (t *c06Tensor) index(idx int) int {
	byteOff := 0
	for d := range 4 {
		i := idx % t.ne[d]
		idx /= t.ne[d]
		byteOff += i * t.nb[d]
	}
	return t.off + byteOff/t.esz
}

func (t *c06Tensor) at(i0, i1, i2 int) float32 {
	return t.buf.data[t.off+(i0*t.nb[0]+i1*t.nb[1]+i2*t.nb[2])/t.esz]
}

func (t *c06Tensor) Floats() []float32 {
	out := make([]float32, t.nelem())
	for i := range out {
		out[i] = t.buf.data[t.index(i)]
	}
	return out
}

// checkBounds panics when some element of the tensor lies outside its buffer or a stride/offset is not a
// whole number of elements (ggml would read or write foreign memory).
func (t *c06Tensor) checkBounds(what string) {
	maxByte := 0
	for d := range 4 {
		if t.nb[d]%t.esz != 0 {
			panic(fmt.Errorf("c06 backend: %s: stride %d of dimension %d is not a multiple of the element size %d", what, t.nb[d], d, t.esz))
		}
		if t.nb[d] < 0 {
			panic(fmt.Errorf("c06 backend: %s: negative stride", what))
		}
		maxByte += (t.ne[d] - 1) * t.nb[d]
	}
	if t.off < 0 || t.off+maxByte/t.esz >= len(t.buf.data) {
		panic(fmt.Errorf("c06 backend: %s: elements [%d, %d] outside the buffer of %d elements (shape %v strides %v)",
			what, t.off, t.off+maxByte/t.esz, len(t.buf.data), t.ne, t.nb))
	}
}

func (t *c06Tensor) derive(ctx ml.Context) *c06Tensor {
	ctx.(*c06Ctx).node()
	return &c06Tensor{buf: t.buf, off: t.off, ne: t.ne, nb: t.nb, esz: t.esz, dtype: t.dtype, deps: []*c06Tensor{t}}
}

// View follows ggml_view_{1,2,3,4}d as wrapped by ml/backend/ggml: shape = ne0 [, nb1, ne1 [, nb2, ne2 [, nb3, ne3]]],
// offset in bytes from the start of t.
func (t *c06Tensor) View(ctx ml.Context, offset int, shape ...int) ml.Tensor {
	v := t.derive(ctx)
	if offset < 0 || offset%t.esz != 0 {
		panic(fmt.Errorf("c06 backend: View: byte offset %d is not a non-negative multiple of the element size %d", offset, t.esz))
	}
	v.off = t.off + offset/t.esz
	switch len(shape) {
	case 1, 3, 5, 7:
	default:
		panic("c06 backend: View: unsupported number of dimensions")
	}
	v.ne = [4]int{1, 1, 1, 1}
	v.nb = [4]int{t.esz, 0, 0, 0}
	v.ne[0] = shape[0]
	nd := (len(shape) + 1) / 2
	for d := 1; d < nd; d++ {
		v.nb[d] = shape[2*d-1]
		v.ne[d] = shape[2*d]
	}
	if nd == 1 {
		v.nb[1] = v.nb[0] * v.ne[0]
	}
	for d := max(nd, 2); d < 4; d++ {
		v.nb[d] = v.nb[d-1] * v.ne[d-1]
	}
	for d := range 4 {
		if v.ne[d] < 1 {
			panic(fmt.Errorf("c06 backend: View: invalid shape %v", shape))
		}
	}
	v.checkBounds("View")
	return v
}

func (t *c06Tensor) Permute(ctx ml.Context, axes ...int) ml.Tensor {
	if len(axes) != 4 {
		panic("c06 backend: Permute: expected 4 dimensions")
	}
	v := t.derive(ctx)
	seen := [4]bool{}
	for i, a := range axes {
		if a < 0 || a > 3 || seen[a] {
			panic(fmt.Errorf("c06 backend: Permute: bad axes %v", axes))
		}
		seen[a] = true
		v.ne[a] = t.ne[i]
		v.nb[a] = t.nb[i]
	}
	return v
}

// Copy follows ggml_cpy: the result is a view of t2; when it is computed the elements of t are written to t2
// in logical order.
func (t *c06Tensor) Copy(ctx ml.Context, t2 ml.Tensor) ml.Tensor {
	c := ctx.(*c06Ctx)
	dst := t2.(*c06Tensor)
	if t.nelem() != dst.nelem() {
		panic(fmt.Errorf("c06 backend: Copy: element counts differ (%v -> %v)", t.ne, dst.ne))
	}
	out := dst.derive(ctx)
	out.deps = []*c06Tensor{t, dst}
	src := t
	b := c.b
	if c.internal && b.phase == c06PhaseStartForward && dst.buf.role == 0 && dst.buf.layer >= 0 && b.kdim*b.heads > 0 {
		if b.stats.keyMoves == nil {
			b.stats.keyMoves = map[int][]int{}
		}
		b.stats.keyMoves[dst.buf.layer] = append(b.stats.keyMoves[dst.buf.layer], dst.nelem()/(b.kdim*b.heads))
	}
	out.run = func() {
		n := src.nelem()
		if src.buf == dst.buf {
			srcSet := make(map[int]bool, n)
			for i := range n {
				srcSet[src.index(i)] = true
			}
			for i := range n {
				if di := dst.index(i); srcSet[di] && di != src.index(i) {
					panic(fmt.Errorf("c06 backend: Copy: source and destination overlap inside one tensor (element %d)", di))
				}
			}
		}
		for i := range n {
			dst.buf.data[dst.index(i)] = src.buf.data[src.index(i)]
		}
	}
	return out
}
