package kvcache

// C06 — "the KV cache exposes exactly the causal history of each sequence" (see /verif/DESIGN.md §3 C06).
//
// A case = one cache configuration + a list of operation intents. c06Run drives the real cache
// (Causal, sliding-window Causal, or WrapperCache{SWA, Causal}) over the harness backend
// (c06_backend_test.go) the way runner/ollamarunner and the models do, keeps a reference model
// (per sequence: the ordered list of stored entries) and, after every forward pass, reads the K/V
// tensors and the mask returned by Get for every layer and compares, for every token of the batch,
// the set of cache cells the mask leaves visible with the model's expectation — by the *data* found
// in those cells.
//
// Each stored token is a unique entry. Its K row is [id, position, tag(layer, head), sequence, 7] and
// its V row is [id, -tag, original position, sequence, 9, 9] (cut to the configured head dimensions), so
// the cell's data says which entry it is, where the cache believes it is (the harness's shift function
// adds the shift amount to the position channel of K), and K/V/layer/head mix-ups are visible.

import (
	"errors"
	"fmt"
	"math"
	"runtime/debug"
	"sort"
	"strings"

	"github.com/ollama/ollama/ml"
	"github.com/ollama/ollama/model/input"
	"pgregory.net/rapid"
)

// known finding (see /verif/replays/C06 and /verif/out/proposed-fixes): defrag merges adjacent moves into
// one copy that runs in the opposite order of the metadata assignment.
const c06SlugDefrag = "defrag-merged-move-swaps-cells"

// known finding: CanResume only looks at the highest stored position of a sliding-window sequence and takes
// the whole window below it for granted; after CopyPrefix from a sequence that has already evicted part of
// that window (or after a second Remove without a forward in between) it answers true although positions of
// the window are gone.
const c06SlugResume = "swa-canresume-ignores-evicted-window-start"

type c06Seg struct {
	Seq int `json:"seq"`
	N   int `json:"n"`
}

type c06Op struct {
	Kind string   `json:"kind"` // fwd | copy | rmsuffix | rmmid | rmall
	Segs []c06Seg `json:"segs,omitempty"`
	Fill bool     `json:"fill,omitempty"` // fwd: every segment takes what is left of the batch
	A    int      `json:"a"`
	B    int      `json:"b"`
	C    int      `json:"c"`
	D    int      `json:"d,omitempty"`
	Flag bool     `json:"flag,omitempty"`
}

type c06Case struct {
	Capacity   int     `json:"capacity"`
	MaxSeq     int     `json:"max_sequences"`
	MaxBatch   int     `json:"max_batch"`
	CachePad   int     `json:"cache_padding"`
	BatchPad   int     `json:"mask_batch_padding"`
	PermutedV  bool    `json:"permuted_v"`
	MaskDType  int     `json:"mask_dtype"` // 0 unset (f32), 1 f32, 2 f16
	SetConfig  bool    `json:"set_config"` // configuration through Cache.SetConfig instead of the backend
	Kind       string  `json:"kind"`       // causal | swa | wrapper (SWA + causal, as gemma2/gemma3)
	Window     int     `json:"window"`
	Shift      string  `json:"shift"` // ok | nil | err
	F16        bool    `json:"f16"`
	KDim       int     `json:"k_dim"`
	VDim       int     `json:"v_dim"`
	Heads      int     `json:"heads"`
	Layers     int     `json:"layers"`
	Nodes      int     `json:"nodes"` // 0: one move per defrag context, 1: three, 2: 8192 graph nodes
	Reserve    bool    `json:"reserve"`
	Prefill    bool    `json:"prefill"`
	Overcommit bool    `json:"overcommit"` // sequences may grow past `capacity` (until the cache reports full)
	Ops        []c06Op `json:"ops"`
}

func c06GenOp(t *rapid.T) c06Op {
	op := c06Op{Kind: rapid.SampledFrom([]string{"fwd", "fwd", "fwd", "fwd", "fwd", "fwd", "fwd", "rmmid", "rmmid", "rmmid", "rmsuffix", "rmsuffix", "rmall", "copy", "copy"}).Draw(t, "kind")}
	switch op.Kind {
	case "fwd":
		ns := rapid.SampledFrom([]int{1, 1, 1, 2, 2, 3}).Draw(t, "nsegs")
		for i := 0; i < ns; i++ {
			op.Segs = append(op.Segs, c06Seg{
				Seq: rapid.IntRange(0, 3).Draw(t, "seq"),
				N:   rapid.SampledFrom([]int{1, 1, 1, 2, 2, 3, 4, 5, 8}).Draw(t, "n"),
			})
		}
		op.Fill = rapid.IntRange(0, 4).Draw(t, "fill") == 0
		op.A = rapid.IntRange(0, 31).Draw(t, "keep")
	case "rmmid":
		op.A = rapid.IntRange(0, 3).Draw(t, "seq")
		op.B = rapid.IntRange(0, 63).Draw(t, "begin")
		op.C = rapid.SampledFrom([]int{0, 0, 0, 1, 1, 2, 3, 5, 9, 30}).Draw(t, "len")
	case "rmsuffix":
		op.A = rapid.IntRange(0, 3).Draw(t, "seq")
		op.B = rapid.IntRange(0, 63).Draw(t, "keep")
		op.Flag = rapid.IntRange(0, 2).Draw(t, "fromEnd") > 0 // count the kept length from the end (short suffixes)
	case "rmall":
		op.A = rapid.IntRange(0, 3).Draw(t, "seq")
	case "copy":
		op.A = rapid.IntRange(0, 3).Draw(t, "src")
		op.B = rapid.IntRange(0, 2).Draw(t, "dst")
		op.C = rapid.IntRange(0, 63).Draw(t, "len")
		op.Flag = rapid.IntRange(0, 3).Draw(t, "leaveOne") == 0
		op.D = rapid.IntRange(0, 1).Draw(t, "bare")
	}
	return op
}

func c06Gen(t *rapid.T) c06Case {
	var c c06Case
	c.Capacity = rapid.SampledFrom([]int{1, 2, 3, 4, 4, 5, 6, 6, 7, 8, 8, 10, 12, 16, 24, 32}).Draw(t, "capacity")
	c.MaxSeq = rapid.SampledFrom([]int{1, 2, 2, 2, 3, 3, 4}).Draw(t, "maxseq")
	c.MaxBatch = rapid.SampledFrom([]int{1, 2, 3, 3, 4, 4, 5, 6, 8}).Draw(t, "maxbatch")
	c.CachePad = rapid.SampledFrom([]int{0, 1, 1, 1, 4, 4, 32}).Draw(t, "cachepad")
	c.BatchPad = rapid.SampledFrom([]int{0, 1, 4}).Draw(t, "batchpad")
	c.PermutedV = rapid.Bool().Draw(t, "permutedv")
	c.MaskDType = rapid.IntRange(0, 2).Draw(t, "maskdtype")
	c.SetConfig = rapid.IntRange(0, 3).Draw(t, "setconfig") == 0
	c.Kind = rapid.SampledFrom([]string{"causal", "causal", "causal", "swa", "swa", "wrapper"}).Draw(t, "kind")
	c.Window = rapid.IntRange(1, 8).Draw(t, "window")
	c.Shift = rapid.SampledFrom([]string{"ok", "ok", "ok", "ok", "ok", "ok", "nil", "err"}).Draw(t, "shift")
	c.F16 = rapid.Bool().Draw(t, "f16")
	c.KDim = rapid.IntRange(3, 5).Draw(t, "kdim")
	c.VDim = rapid.SampledFrom([]int{2, 3, 4, 6}).Draw(t, "vdim")
	c.Heads = rapid.IntRange(1, 2).Draw(t, "heads")
	c.Layers = rapid.IntRange(1, 2).Draw(t, "layers")
	c.Nodes = rapid.IntRange(0, 2).Draw(t, "nodes")
	c.Reserve = rapid.Bool().Draw(t, "reserve")
	c.Prefill = rapid.IntRange(0, 9).Draw(t, "prefill") < 4
	c.Overcommit = rapid.IntRange(0, 9).Draw(t, "overcommit") < 2
	c.Ops = rapid.SliceOfN(rapid.Custom(c06GenOp), 1, 40).Draw(t, "ops")
	return c
}

// ----------------------------------------------------------------------------------------- model

type c06Ent struct {
	id   int
	seq  int   // sequence that stored it
	pos0 int32 // position it was stored at
}

// one position of one sequence's logical history (the position is the index in the slice)
type c06Slot struct {
	ent *c06Ent
	// sliding-window bookkeeping: the cache was entitled to drop the entry for this sequence
	// (position < lowest position of a batch of the sequence - window)
	evicted bool
	// the entry was evicted and the sequence then went through a Remove with an explicit end index:
	// the cache does not check that the window is still covered (TODO in Causal.Remove), so it may be missing
	excusable bool
}

type c06View struct {
	name   string
	window int32 // -1: none
	layers []int
	typ    int // WrapperCache layer type, -1 without wrapper
}

type c06Info struct {
	nontrivial bool
	classes    []string
}

type c06H struct {
	c       c06Case
	b       *c06Backend
	cache   Cache
	wrapper *WrapperCache
	views   []c06View

	cachePad, batchPad int
	maskDType          ml.DType
	limit              int

	seqs         [][]c06Slot
	shiftPending []bool
	ents         map[int]*c06Ent
	nextID       int

	classes    map[string]bool
	nontrivial bool
	mergedSeen bool
	fullSeen   bool
	stop       bool

	known    func(string) bool
	excluded func(string)
}

func (h *c06H) class(s string) { h.classes[s] = true }

func c06Mod(a, n int) int {
	if n <= 0 {
		return 0
	}
	a %= n
	if a < 0 {
		a += n
	}
	return a
}

func c06Clamp(v, lo, hi int) int { return min(max(v, lo), hi) }

func (h *c06H) hasWindow() bool { return h.c.Kind != "causal" }

func (h *c06H) shiftFn(ctx ml.Context, layer int, key, shift ml.Tensor) (ml.Tensor, error) {
	if h.c.Shift == "err" {
		return nil, errors.New("c06: injected shift failure")
	}
	k := key.(*c06Tensor)
	s := shift.(*c06Tensor)
	if k.ne[0] != h.c.KDim || k.ne[1] != h.c.Heads || k.ne[3] != 1 {
		panic(fmt.Errorf("shift function called with a key of shape %v, want [%d %d n]", k.ne, h.c.KDim, h.c.Heads))
	}
	if s.nelem() != k.ne[2] || s.ne[0] != k.ne[2] {
		panic(fmt.Errorf("shift function called with %d keys but %d shift amounts", k.ne[2], s.nelem()))
	}
	if s.dtype != ml.DTypeI32 {
		panic(fmt.Errorf("shift amounts have dtype %v, want i32", s.dtype))
	}
	c := ctx.(*c06Ctx)
	out := c.newTensor(ml.DTypeF32, []int{k.ne[0], k.ne[1], k.ne[2]}, float32(math.NaN()))
	out.deps = []*c06Tensor{k, s}
	h.b.stats.shiftCalls++
	out.run = func() {
		for j := range k.ne[2] {
			for hd := range k.ne[1] {
				for d := range k.ne[0] {
					v := k.at(d, hd, j)
					if d == 1 {
						v += s.at(j, 0, 0)
					}
					out.buf.data[out.off+d+k.ne[0]*(hd+k.ne[1]*j)] = v
				}
			}
		}
	}
	return out, nil
}

func c06TagK(layer, head int) float32 { return float32((layer+1)*16 + head + 1) }

func (h *c06H) kRow(e *c06Ent, pos int32, layer, head int) []float32 {
	return []float32{float32(e.id), float32(pos), c06TagK(layer, head), float32(e.seq), 7}[:h.c.KDim]
}

func (h *c06H) vRow(e *c06Ent, layer, head int) []float32 {
	return []float32{float32(e.id), -c06TagK(layer, head), float32(e.pos0), float32(e.seq), 9, 9}[:h.c.VDim]
}

func c06Normalise(c c06Case) c06Case {
	c.Capacity = c06Clamp(c.Capacity, 1, 64)
	c.MaxSeq = c06Clamp(c.MaxSeq, 1, 4)
	c.MaxBatch = c06Clamp(c.MaxBatch, 1, 16)
	if c.CachePad < 0 || c.CachePad > 64 {
		c.CachePad = 1
	}
	if c.BatchPad < 0 || c.BatchPad > 64 {
		c.BatchPad = 1
	}
	c.MaskDType = c06Clamp(c.MaskDType, 0, 2)
	if c.Kind != "swa" && c.Kind != "wrapper" {
		c.Kind = "causal"
	}
	c.Window = c06Clamp(c.Window, 1, 64)
	if c.Shift != "nil" && c.Shift != "err" {
		c.Shift = "ok"
	}
	c.KDim = c06Clamp(c.KDim, 3, 5)
	c.VDim = c06Clamp(c.VDim, 2, 6)
	c.Heads = c06Clamp(c.Heads, 1, 2)
	c.Layers = c06Clamp(c.Layers, 1, 2)
	if c.Kind == "wrapper" {
		c.Layers = 2
	}
	c.Nodes = c06Clamp(c.Nodes, 0, 2)
	return c
}

func c06Run(c c06Case, known func(string) bool, excluded func(string)) (info c06Info, err error) {
	c = c06Normalise(c)
	h := &c06H{c: c, known: known, excluded: excluded, classes: map[string]bool{}, ents: map[int]*c06Ent{}}
	defer func() {
		if r := recover(); r != nil {
			st := string(debug.Stack())
			what := fmt.Sprint(r)
			if strings.Contains(what, "nil pointer dereference") && strings.Contains(st, "ml.") {
				what = "harness backend: unimplemented ml method called (nil embedded interface): " + what
			}
			err = fmt.Errorf("panic: %s\n%s", what, c06TrimStack(st))
		}
		for k := range h.classes {
			info.classes = append(info.classes, k)
		}
		sort.Strings(info.classes)
		info.nontrivial = h.nontrivial
	}()
	return info, h.run()
}

func c06TrimStack(st string) string {
	lines := strings.Split(st, "\n")
	var keep []string
	for i, l := range lines {
		if strings.Contains(l, "kvcache") || strings.Contains(l, "/ml/") {
			keep = append(keep, strings.TrimSpace(l))
			if i+1 < len(lines) && strings.HasPrefix(lines[i+1], "\t") {
				keep = append(keep, "  "+strings.TrimSpace(lines[i+1]))
			}
		}
		if len(keep) > 24 {
			break
		}
	}
	return strings.Join(keep, "\n")
}

func (h *c06H) run() error {
	c := h.c
	h.cachePad = max(c.CachePad, 1)
	h.batchPad = max(c.BatchPad, 1)
	h.maskDType = ml.DTypeF32
	cfg := ml.CacheConfig{CachePadding: c.CachePad, MaskBatchPadding: c.BatchPad, PermutedV: c.PermutedV}
	switch c.MaskDType {
	case 1:
		cfg.MaskDType = ml.DTypeF32
	case 2:
		cfg.MaskDType = ml.DTypeF16
		h.maskDType = ml.DTypeF16
	}
	layers := c.Layers
	// (MaxGraphNodes - 2*layers) / (6*layers) moves fit in one defrag context; a sub-cache of the wrapper holds one layer
	perCache := layers
	if c.Kind == "wrapper" {
		perCache = 1
	}
	nodes := 8192
	switch c.Nodes {
	case 0:
		nodes = 8 * perCache
	case 1:
		nodes = 20 * perCache
	}
	nodes = max(nodes, 2+4*perCache) // the shift context needs 1 + 4 per layer
	h.b = &c06Backend{maxNodes: nodes, kdim: c.KDim, heads: c.Heads}
	var be ml.Backend = h.b
	if c.SetConfig {
		// the model overrides the backend: the backend's own wishes must then be ignored
		h.b.cfg = ml.CacheConfig{CachePadding: 7, MaskBatchPadding: 3, PermutedV: !c.PermutedV}
		be = c06BackendCfg{h.b}
	} else if cfg != (ml.CacheConfig{}) {
		// (an all-default configuration is run on a backend that does not implement BackendCacheConfig at all)
		h.b.cfg = cfg
		be = c06BackendCfg{h.b}
	}

	var shift func(ctx ml.Context, layer int, key, shift ml.Tensor) (ml.Tensor, error)
	if c.Shift != "nil" {
		shift = h.shiftFn
	}
	w := int32(c.Window)
	switch c.Kind {
	case "causal":
		h.cache = NewCausalCache(shift)
		h.views = []c06View{{name: "causal", window: -1, typ: -1}}
		for l := range layers {
			h.views[0].layers = append(h.views[0].layers, l)
		}
	case "swa":
		h.cache = NewSWACache(w, shift)
		h.views = []c06View{{name: "swa", window: w, typ: -1}}
		for l := range layers {
			h.views[0].layers = append(h.views[0].layers, l)
		}
		h.class("kind_swa")
	case "wrapper":
		h.wrapper = NewWrapperCache(NewSWACache(w, shift), NewCausalCache(shift))
		h.cache = h.wrapper
		h.views = []c06View{{name: "wrapper/swa", window: w, typ: 0, layers: []int{0}}, {name: "wrapper/causal", window: -1, typ: 1, layers: []int{1}}}
		h.class("kind_wrapper")
	}
	defer h.cache.Close()
	if c.SetConfig {
		h.cache.SetConfig(cfg)
		h.class("cfg_set_config")
	}
	dtype := ml.DTypeF32
	if c.F16 {
		dtype = ml.DTypeF16
	}
	h.cache.Init(be, dtype, c.MaxSeq, c.Capacity, c.MaxBatch)

	h.limit = c.Capacity
	if c.Overcommit {
		h.limit = 1 << 20
		h.class("overcommit")
	}
	h.seqs = make([][]c06Slot, c.MaxSeq)
	h.shiftPending = make([]bool, c.MaxSeq)
	if h.cachePad > 1 {
		h.class("cache_padding")
	}
	if h.batchPad > 1 {
		h.class("mask_batch_padding")
	}
	if c.PermutedV {
		h.class("permuted_v")
	}
	if c.Shift != "ok" {
		h.class("shift_" + c.Shift)
	}

	if c.Reserve && c.MaxBatch <= c.Capacity {
		// the runner reserves a worst-case graph of batch-size tokens before the first real batch (only done here for
		// the usual batch <= context configuration: with a larger batch the never-computed Put would lie outside a
		// causal cache)
		if err := h.reserve(); err != nil {
			return err
		}
	}
	if c.Prefill {
		h.class("prefill")
		for s := 0; s < c.MaxSeq && !h.stop; s++ {
			for len(h.seqs[s]) < c.Capacity && !h.stop {
				n := min(c.MaxBatch, c.Capacity-len(h.seqs[s]))
				before := len(h.seqs[s])
				if err := h.forward([]c06Seg{{s, n}}); err != nil {
					return fmt.Errorf("prefill: %w", err)
				}
				if len(h.seqs[s]) == before {
					break // cache full
				}
			}
		}
	}
	for i, op := range c.Ops {
		if h.stop {
			break
		}
		if err := h.apply(op); err != nil {
			return fmt.Errorf("op %d (%s): %w", i, op.Kind, err)
		}
	}
	if !h.stop {
		if err := h.audit(); err != nil {
			return fmt.Errorf("final audit: %w", err)
		}
	}
	return nil
}

func (h *c06H) apply(op c06Op) error {
	c := h.c
	live := func() []int {
		var l []int
		for s := range h.seqs {
			if len(h.seqs[s]) > 0 {
				l = append(l, s)
			}
		}
		return l
	}
	switch op.Kind {
	case "fwd":
		budget := c.MaxBatch
		used := map[int]bool{}
		var segs []c06Seg
		for _, sg := range op.Segs {
			s := c06Mod(sg.Seq, c.MaxSeq)
			if used[s] || budget == 0 {
				continue
			}
			used[s] = true
			if len(h.seqs[s]) >= h.limit {
				// the runner shifts a sequence that has reached its context size before adding to it
				if err := h.shiftSlot(s, op.A); err != nil {
					return err
				}
			}
			n := max(sg.N, 1)
			if op.Fill {
				n = budget
			}
			// (even when sequences may outgrow `capacity`, one batch never adds more than `capacity` tokens to a
			// sequence: a batch then always fits into an empty cache, as it does for every real caller)
			n = min(n, budget, h.limit-len(h.seqs[s]), c.Capacity)
			if n <= 0 {
				continue
			}
			budget -= n
			segs = append(segs, c06Seg{s, n})
		}
		if len(segs) == 0 {
			h.class("noop")
			return nil
		}
		return h.forward(segs)
	case "rmall":
		return h.clearSeq(c06Mod(op.A, c.MaxSeq))
	case "rmsuffix":
		l := live()
		if len(l) == 0 {
			h.class("noop")
			return nil
		}
		s := l[c06Mod(op.A, len(l))]
		L := len(h.seqs[s])
		keep := c06Mod(op.B, L+1)
		if op.Flag {
			keep = L - c06Mod(op.B, min(L, 4)+1)
		}
		h.class("remove_suffix")
		return h.removeSuffix(s, keep)
	case "rmmid":
		l := live()
		if len(l) == 0 {
			h.class("noop")
			return nil
		}
		s := l[c06Mod(op.A, len(l))]
		L := len(h.seqs[s])
		b := c06Mod(op.B, L)
		e := b + 1 + c06Mod(op.C, L-b)
		return h.removeRange(s, b, e)
	case "copy":
		l := live()
		if len(l) == 0 || c.MaxSeq < 2 {
			h.class("noop")
			return nil
		}
		src := l[c06Mod(op.A, len(l))]
		dst := (src + 1 + c06Mod(op.B, c.MaxSeq-1)) % c.MaxSeq
		n := 1 + c06Mod(op.C, len(h.seqs[src]))
		return h.copyPrefix(src, dst, n, op.Flag, op.D&1 == 1)
	}
	h.class("noop")
	return nil
}

// ------------------------------------------------------------------------------------ operations

func (h *c06H) clearSeq(s int) error {
	h.b.phase = c06PhaseRemove
	err := h.cache.Remove(s, 0, math.MaxInt32)
	h.b.phase = c06PhaseIdle
	if err != nil {
		return fmt.Errorf("Remove(seq %d, 0, MaxInt32) failed (%v): the interface names it as the operation that recovers from a failed Remove", s, err)
	}
	h.seqs[s] = nil
	h.shiftPending[s] = false
	h.class("remove_all")
	return nil
}

// removeSuffix is what InputCache.LoadCacheSlot does: ask CanResume, Remove(seq, keep, MaxInt32), on error remove all.
func (h *c06H) removeSuffix(s, keep int) error {
	if keep > 0 && !h.cache.CanResume(s, int32(keep)) {
		h.class("resume_refused")
		keep = 0
	}
	if keep > 0 && h.resumePastEvicted(s, keep) {
		keep = 0
	}
	if keep == 0 {
		return h.clearSeq(s)
	}
	h.b.phase = c06PhaseRemove
	err := h.cache.Remove(s, int32(keep), math.MaxInt32)
	h.b.phase = c06PhaseIdle
	if err != nil {
		h.class("remove_suffix_error")
		return h.clearSeq(s)
	}
	if keep < len(h.seqs[s]) {
		h.class("remove_suffix_partial")
	}
	h.seqs[s] = h.seqs[s][:keep:keep]
	return nil
}

// resumePastEvicted: the cache has just said that sequence s can resume at position keep. It reports true when that
// answer falls into the class of the known finding c06SlugResume and the finding is switched on (the caller then removes
// the whole sequence instead, as it would after CanResume = false).
func (h *c06H) resumePastEvicted(s, keep int) bool {
	if !h.hasWindow() {
		return false
	}
	h.class("swa_resume_granted")
	for p := max(0, keep-h.c.Window); p < keep; p++ {
		if sl := h.seqs[s][p]; sl.evicted && !sl.excusable {
			// the model says position p of the window of `keep` was evicted: the next forward of the sequence will show it missing
			h.class("swa_resume_granted_past_evicted")
			if h.known(c06SlugResume) {
				h.excluded(c06SlugResume)
				return true
			}
			return false
		}
	}
	return false
}

func (h *c06H) resumeGranted(s, keep int) error {
	if h.resumePastEvicted(s, keep) {
		return h.clearSeq(s)
	}
	return nil
}

// removeRange is Remove with an explicit end (InputCache.ShiftCacheSlot): positions after end shift down.
func (h *c06H) removeRange(s, b, e int) error {
	L := len(h.seqs[s])
	h.b.phase = c06PhaseRemove
	h.b.stats = c06Stats{}
	err := h.cache.Remove(s, int32(b), int32(e))
	h.b.phase = c06PhaseIdle
	if err != nil {
		switch {
		case errors.Is(err, ErrNotSupported):
			h.class("remove_err_noshift")
		case strings.Contains(err.Error(), "shared"):
			h.class("remove_err_shared")
		default:
			h.class("remove_err_other")
		}
		// "If an error occurs, the entire context for the sequence should be removed by calling Remove(seq, 0, math.MaxInt32)"
		return h.clearSeq(s)
	}
	ns := make([]c06Slot, 0, L-(e-b))
	ns = append(ns, h.seqs[s][:b]...)
	ns = append(ns, h.seqs[s][e:]...)
	if e < L {
		h.class("remove_shift_ok")
		h.shiftPending[s] = true
		if b == 0 {
			h.class("remove_prefix_shift")
		} else {
			h.class("remove_middle_shift")
		}
	} else {
		h.class("remove_range_to_end")
	}
	if h.hasWindow() {
		for i := range ns {
			if ns[i].evicted {
				ns[i].excusable = true
			}
		}
	}
	if len(ns) == 0 {
		h.shiftPending[s] = false
	}
	h.seqs[s] = ns
	return nil
}

// shiftSlot mirrors InputCache.ShiftCacheSlot for a sequence that has reached the context size.
func (h *c06H) shiftSlot(s, keepIntent int) error {
	numCtx := h.limit
	L := len(h.seqs[s])
	numKeep := c06Mod(keepIntent, numCtx)
	targetFree := max((numCtx-numKeep)/2, 1)
	discard := targetFree - (numCtx - L)
	if discard <= 0 {
		return nil
	}
	h.class("runner_shift")
	return h.removeRange(s, numKeep, numKeep+discard)
}

// copyPrefix is InputCache.findBestCacheSlot + LoadCacheSlot: fork, then CanResume / Remove on the destination.
// bare: when the whole copied prefix is kept, the (then empty) Remove(dst, n, MaxInt32) of LoadCacheSlot is left out, so
// that the fork is continued exactly as CopyPrefix left it ("copies tokens in the range [0, len)").
func (h *c06H) copyPrefix(src, dst, n int, leaveOne, bare bool) error {
	h.cache.CopyPrefix(src, dst, int32(n))
	h.class("copy_prefix")
	if len(h.seqs[dst]) > 0 {
		h.class("copy_prefix_over_live_dst")
	}
	h.seqs[dst] = append([]c06Slot{}, h.seqs[src][:n]...)
	h.shiftPending[dst] = false
	keep := n
	if leaveOne {
		keep = n - 1
	}
	if bare && keep == n {
		h.class("copy_prefix_bare")
		if !h.cache.CanResume(dst, int32(n)) {
			h.class("resume_refused")
			return h.clearSeq(dst)
		}
		return h.resumeGranted(dst, n)
	}
	return h.removeSuffix(dst, keep)
}

// ownerCounts: entry id -> number of sequences whose history contains it.
func (h *c06H) ownerCounts() map[int]int {
	m := map[int]int{}
	for s := range h.seqs {
		for _, sl := range h.seqs[s] {
			m[sl.ent.id]++
		}
	}
	return m
}

func (h *c06H) describe(id int) string {
	e, ok := h.ents[id]
	if !ok {
		return fmt.Sprintf("entry #%d (never stored)", id)
	}
	var own []string
	for s := range h.seqs {
		for p, sl := range h.seqs[s] {
			if sl.ent.id == id {
				own = append(own, fmt.Sprintf("seq %d pos %d", s, p))
			}
		}
	}
	if len(own) == 0 {
		own = []string{"no sequence (removed)"}
	}
	return fmt.Sprintf("entry #%d (stored by seq %d at pos %d; now part of %s)", id, e.seq, e.pos0, strings.Join(own, ", "))
}

type c06Tok struct {
	seq int
	pos int32
}

type c06LayerOut struct {
	layer   int
	view    c06View
	k, v, m *c06Tensor
}

func (h *c06H) setLayer(view c06View, layer int) {
	h.cache.SetLayer(layer)
	if h.wrapper != nil {
		h.wrapper.SetLayerType(view.typ)
	}
}

func (h *c06H) reserve() error {
	c := h.c
	h.class("reserve")
	ctx := h.b.harnessCtx()
	defer ctx.Close()
	var batch input.Batch
	for i := 0; i < c.MaxBatch; i++ {
		batch.Positions = append(batch.Positions, int32(i))
		batch.Sequences = append(batch.Sequences, 0)
	}
	if err := h.cache.StartForward(ctx, batch, true); err != nil {
		return fmt.Errorf("StartForward(reserve) failed: %v", err)
	}
	for _, view := range h.views {
		for _, l := range view.layers {
			h.setLayer(view, l)
			k, _ := ctx.FromFloatSlice(make([]float32, c.KDim*c.Heads*c.MaxBatch), c.KDim, c.Heads, c.MaxBatch)
			v, _ := ctx.FromFloatSlice(make([]float32, c.VDim*c.Heads*c.MaxBatch), c.VDim, c.Heads, c.MaxBatch)
			for i := range k.(*c06Tensor).buf.data {
				k.(*c06Tensor).buf.data[i] = -1
			}
			h.cache.Put(ctx, k, v)
			kk, vv, mm := h.cache.Get(ctx)
			ctx.Forward(kk, vv, mm)
		}
	}
	// the graph is only reserved, never computed
	return ctx.Reserve()
}

func (h *c06H) forward(segs []c06Seg) error {
	c := h.c
	var batch input.Batch
	var toks []c06Tok
	diverge := false
	owners := h.ownerCounts()
	for _, sg := range segs {
		L := len(h.seqs[sg.Seq])
		for i := range sg.N {
			batch.Positions = append(batch.Positions, int32(L+i))
			batch.Sequences = append(batch.Sequences, sg.Seq)
			toks = append(toks, c06Tok{sg.Seq, int32(L + i)})
		}
		for _, sl := range h.seqs[sg.Seq] {
			if owners[sl.ent.id] > 1 {
				diverge = true
				break
			}
		}
		if h.hasWindow() {
			// the window of the sequence advances to the first position of the batch whether or not the batch is placed
			for p := 0; p < L-c.Window; p++ {
				if !h.seqs[sg.Seq][p].evicted {
					h.seqs[sg.Seq][p].evicted = true
					h.class("swa_evicted")
					if owners[h.seqs[sg.Seq][p].ent.id] > 1 {
						h.class("swa_evicted_shared")
					}
				}
			}
		}
	}
	if len(segs) > 1 {
		h.class("batch_multi_seq")
	}
	if len(toks) > 1 {
		h.class("batch_multi_token")
	}

	ctx := h.b.harnessCtx()
	defer ctx.Close()
	h.b.phase = c06PhaseStartForward
	h.b.stats = c06Stats{}
	err := h.cache.StartForward(ctx, batch, false)
	h.b.phase = c06PhaseIdle
	st := h.b.stats

	if st.internalCtx > 0 {
		h.class("defrag")
		maxMove, nMoves := 0, 0
		for _, lens := range st.keyMoves {
			nMoves = max(nMoves, len(lens))
			for _, n := range lens {
				maxMove = max(maxMove, n)
			}
		}
		if nMoves > 0 {
			h.class("defrag_moved")
		}
		if nMoves > 1 {
			h.class("defrag_several_moves")
		}
		if maxMove >= 2 {
			h.class("defrag_merged")
			if h.known(c06SlugDefrag) {
				// known finding: a merged move leaves data and metadata of the moved cells swapped; everything after it is
				// excluded from the search
				h.excluded(c06SlugDefrag)
				h.stop = true
				return nil
			}
			h.mergedSeen = true
		}
	}

	if err != nil {
		if !errors.Is(err, ErrKvCacheFull) {
			return fmt.Errorf("StartForward failed with something other than ErrKvCacheFull: %v", err)
		}
		// reported as an error: the model is unchanged, and later steps show whether live entries were overwritten
		h.class("cache_full")
		h.fullSeen = true
		if !c.Overcommit {
			// every sequence within `capacity`: a causal cache always has room (after defrag); a sliding-window cache is
			// sized for maxSequences windows + one batch and runs full when idle sequences keep their last batch
			h.class("cache_full_within_capacity_" + c.Kind)
		}
		return nil
	}

	// the forward pass of a model: per layer Put then Get; one Compute at the end
	var outs []c06LayerOut
	var all []ml.Tensor
	newEnts := make([]*c06Ent, len(toks))
	for i, tk := range toks {
		h.nextID++
		newEnts[i] = &c06Ent{id: h.nextID, seq: tk.seq, pos0: tk.pos}
		h.ents[h.nextID] = newEnts[i]
	}
	n := len(toks)
	for _, view := range h.views {
		for _, l := range view.layers {
			h.setLayer(view, l)
			kd := make([]float32, 0, c.KDim*c.Heads*n)
			vd := make([]float32, 0, c.VDim*c.Heads*n)
			for i, tk := range toks {
				for hd := range c.Heads {
					kd = append(kd, h.kRow(newEnts[i], tk.pos, l, hd)...)
					vd = append(vd, h.vRow(newEnts[i], l, hd)...)
				}
			}
			k, _ := ctx.FromFloatSlice(kd, c.KDim, c.Heads, n)
			v, _ := ctx.FromFloatSlice(vd, c.VDim, c.Heads, n)
			h.cache.Put(ctx, k, v)
			kk, vv, mm := h.cache.Get(ctx)
			if kk == nil || vv == nil || mm == nil {
				return fmt.Errorf("Get returned a nil tensor (layer %d)", l)
			}
			outs = append(outs, c06LayerOut{l, view, kk.(*c06Tensor), vv.(*c06Tensor), mm.(*c06Tensor)})
			all = append(all, kk, vv, mm)
		}
	}
	ctx.Forward(all...).Compute(all...)

	for i, tk := range toks {
		h.seqs[tk.seq] = append(h.seqs[tk.seq], c06Slot{ent: newEnts[i]})
	}
	for _, o := range outs {
		if err := h.verify(o, toks); err != nil {
			return err
		}
	}
	h.class("forward_verified")
	for _, sg := range segs {
		if h.shiftPending[sg.Seq] {
			h.shiftPending[sg.Seq] = false
			h.class("remove_shift_verified")
			h.nontrivial = true
		}
	}
	if diverge {
		h.class("copy_diverge")
		h.nontrivial = true
	}
	if h.mergedSeen {
		h.class("defrag_merged_verified")
		h.nontrivial = true
	}
	if st.internalCtx > 0 {
		h.class("defrag_verified")
		if len(st.keyMoves) > 0 {
			h.class("defrag_moved_verified")
		}
		if st.internalCtx > 1 {
			h.class("defrag_several_contexts")
		}
	}
	if h.fullSeen {
		h.class("cache_full_then_verified")
	}
	return nil
}

// verify compares what one layer's Get exposes to every token of the batch with the model.
func (h *c06H) verify(o c06LayerOut, toks []c06Tok) error {
	c := h.c
	k, v, m := o.k, o.v, o.m
	where := fmt.Sprintf("%s layer %d", o.view.name, o.layer)
	length, rows := m.ne[0], m.ne[1]
	if m.ne[2] != 1 || m.ne[3] != 1 {
		return fmt.Errorf("%s: mask shape %v, want [history, batch]", where, m.ne)
	}
	if length%h.cachePad != 0 {
		return fmt.Errorf("%s: mask history length %d is not a multiple of CachePadding %d", where, length, h.cachePad)
	}
	if rows < len(toks) || rows%h.batchPad != 0 {
		return fmt.Errorf("%s: mask batch dimension %d for a batch of %d with MaskBatchPadding %d", where, rows, len(toks), h.batchPad)
	}
	if m.dtype != h.maskDType {
		return fmt.Errorf("%s: mask dtype %v, want %v", where, m.dtype, h.maskDType)
	}
	if k.ne != [4]int{c.KDim, c.Heads, length, 1} {
		return fmt.Errorf("%s: key shape %v, want [%d %d %d]", where, k.ne, c.KDim, c.Heads, length)
	}
	wantV := [4]int{c.VDim, c.Heads, length, 1}
	if c.PermutedV {
		wantV = [4]int{length, c.VDim, c.Heads, 1}
	}
	if v.ne != wantV {
		return fmt.Errorf("%s: value shape %v, want %v (PermutedV %v)", where, v.ne, wantV, c.PermutedV)
	}
	mf := m.Floats()
	negInf := float32(math.Inf(-1))

	vAt := func(d, hd, j int) float32 {
		if c.PermutedV {
			return v.at(j, d, hd)
		}
		return v.at(d, hd, j)
	}

	for i, tk := range toks {
		hist := h.seqs[tk.seq]
		lo := int32(0)
		if o.view.window >= 0 {
			lo = max(0, tk.pos-o.view.window)
		}
		tokWhere := fmt.Sprintf("%s, batch token %d (seq %d pos %d)", where, i, tk.seq, tk.pos)
		seen := map[int32]bool{}
		for j := range length {
			mv := mf[i*length+j]
			if mv == negInf {
				continue
			}
			if mv != 0 {
				return fmt.Errorf("%s: mask value %v at history cell %d (want 0 or -Inf)", tokWhere, mv, j)
			}
			// decode the cell from its data
			idf := k.at(0, 0, j)
			id := int(idf)
			ent, ok := h.ents[id]
			if !ok || float32(id) != idf {
				return fmt.Errorf("%s: visible cell %d holds key data %v that was never stored (expected history: %s)", tokWhere, j, c06Row(k, j, c.KDim), h.expect(hist, lo, tk.pos))
			}
			kpos := k.at(1, 0, j)
			p := int32(kpos)
			if float32(p) != kpos || p < lo || p > tk.pos || int(p) >= len(hist) || hist[p].ent.id != id {
				return fmt.Errorf("%s: sees %s whose key says position %v — not part of the expected history %s", tokWhere, h.describe(id), kpos, h.expect(hist, lo, tk.pos))
			}
			if seen[p] {
				return fmt.Errorf("%s: position %d is visible twice (cell %d)", tokWhere, p, j)
			}
			seen[p] = true
			for hd := range c.Heads {
				want := h.kRow(ent, p, o.layer, hd)
				for d := range c.KDim {
					if got := k.at(d, hd, j); got != want[d] {
						return fmt.Errorf("%s: key data of %s in cell %d head %d is %v, want %v [id pos tag seq ..]", tokWhere, h.describe(id), j, hd, c06RowHead(k, j, hd, c.KDim), want)
					}
				}
				wantV := h.vRow(ent, o.layer, hd)
				for d := range c.VDim {
					if got := vAt(d, hd, j); got != wantV[d] {
						gotRow := make([]float32, c.VDim)
						for dd := range c.VDim {
							gotRow[dd] = vAt(dd, hd, j)
						}
						return fmt.Errorf("%s: value data in cell %d head %d is %v but the key there is %s, want %v [id -tag pos0 seq ..]", tokWhere, j, hd, gotRow, h.describe(id), wantV)
					}
				}
			}
		}
		for p := lo; p <= tk.pos; p++ {
			if seen[p] {
				continue
			}
			sl := hist[p]
			if o.view.window >= 0 && sl.evicted && sl.excusable {
				h.class("swa_missing_after_range_remove_excused")
				continue
			}
			why := ""
			if o.view.window >= 0 && sl.evicted {
				why = " (it had left the sliding window earlier, but the caller was told it could resume here)"
			}
			return fmt.Errorf("%s: %s at position %d is missing from the visible history%s; expected %s, visible positions %v", tokWhere, h.describe(sl.ent.id), p, why, h.expect(hist, lo, tk.pos), c06Keys(seen))
		}
	}
	for i := len(toks); i < rows; i++ {
		for j := range length {
			if mf[i*length+j] != negInf {
				return fmt.Errorf("%s: padding row %d of the mask is not fully masked (cell %d = %v)", where, i, j, mf[i*length+j])
			}
		}
	}
	return nil
}

func c06Keys(m map[int32]bool) []int {
	var out []int
	for k := range m {
		out = append(out, int(k))
	}
	sort.Ints(out)
	return out
}

func c06Row(k *c06Tensor, j, dim int) []float32 { return c06RowHead(k, j, 0, dim) }

func c06RowHead(k *c06Tensor, j, hd, dim int) []float32 {
	out := make([]float32, dim)
	for d := range dim {
		out[d] = k.at(d, hd, j)
	}
	return out
}

func (h *c06H) expect(hist []c06Slot, lo, hi int32) string {
	var sb strings.Builder
	sb.WriteString("{")
	for p := lo; p <= hi && int(p) < len(hist); p++ {
		if p > lo {
			sb.WriteString(" ")
		}
		fmt.Fprintf(&sb, "pos%d=#%d", p, hist[p].ent.id)
		if hist[p].evicted {
			sb.WriteString("(evicted)")
		}
	}
	sb.WriteString("}")
	return sb.String()
}

// audit exposes the final state of every sequence once more: one more token per sequence (within the
// caller contract), then the sequence is removed to make room for the next one.
func (h *c06H) audit() error {
	for s := range h.seqs {
		if h.stop {
			return nil
		}
		if len(h.seqs[s]) == 0 {
			continue
		}
		if len(h.seqs[s]) >= h.limit {
			var err error
			if h.c.Kind == "causal" {
				err = h.removeSuffix(s, len(h.seqs[s])-1)
			} else {
				err = h.shiftSlot(s, 0)
			}
			if err != nil {
				return err
			}
		}
		if len(h.seqs[s]) > 0 {
			before := len(h.seqs[s])
			if err := h.forward([]c06Seg{{s, 1}}); err != nil {
				return err
			}
			if len(h.seqs[s]) > before {
				h.class("audit_verified")
			}
		}
		if h.stop {
			return nil
		}
		if err := h.clearSeq(s); err != nil {
			return err
		}
	}
	return nil
}
