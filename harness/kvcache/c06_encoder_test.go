// C06, the encoder cache (kvcache/encoder.go) and the wrapper that pairs it with a causal cache, as the
// cross-attention models use them: NewWrapperCache(NewEncoderCache(), NewCausalCache(shift)).
//
// The encoder cache holds the key/value tensors of the most recent image of its single sequence. What C06 says about
// it: the history exposed to attention holds "each [entry] with the key/value data stored for it: ... nothing from
// removed ranges ... and nothing missing" - here: Get returns, per layer, exactly the data of the most recent Put;
// EncoderCached() is true exactly while the position the image was stored at has not been removed; a memory
// reservation pass changes nothing.
//
// Stateful machine over the exported API (NewEncoderCache, NewWrapperCache, Cache interface, EncoderCached) on the
// harness's own tensor backend. Every stored tensor is filled with an entry id, so what Get returns is identified by
// its data. Caller contract honoured: one sequence, Put only in passes whose batch carries an image (or in reservation
// passes), one shape per case.
package kvcache

import (
	"fmt"
	"testing"

	"pgregory.net/rapid"
	"verif.local/vfkit"

	"github.com/ollama/ollama/ml"
	"github.com/ollama/ollama/model/input"
)

type c06EncOp struct {
	Kind    string `json:"k"`             // fwd | remove
	N       int    `json:"n,omitempty"`   // fwd: batch size
	Imgs    []int  `json:"i,omitempty"`   // fwd: batch indices (mod N) that carry an image
	Reserve bool   `json:"r,omitempty"`   // fwd: memory reservation pass
	PutAny  bool   `json:"p,omitempty"`   // fwd, reservation pass without image: the model stores worst-case tensors anyway
	Begin   int    `json:"b,omitempty"`   // remove: begin (mod next position + 2)
	Len     int    `json:"len,omitempty"` // remove: length; 0 = to the end (MaxInt32)
}

type c06EncCase struct {
	Wrapped  bool        `json:"wrapped"` // through NewWrapperCache(encoder, causal)
	Layers   int         `json:"layers"`
	PermuteV bool        `json:"permute_v"`
	Ops      []c06EncOp  `json:"ops"`
}

func c06EncGen(t *rapid.T) c06EncCase {
	var c c06EncCase
	c.Wrapped = rapid.Bool().Draw(t, "wrapped")
	c.Layers = rapid.IntRange(1, 3).Draw(t, "layers")
	c.PermuteV = rapid.Bool().Draw(t, "permute_v")
	n := rapid.IntRange(1, 14).Draw(t, "n_ops")
	for i := 0; i < n; i++ {
		var o c06EncOp
		o.Kind = rapid.SampledFrom([]string{"fwd", "fwd", "fwd", "remove"}).Draw(t, "kind")
		if o.Kind == "fwd" {
			o.N = rapid.IntRange(1, 4).Draw(t, "n")
			ni := rapid.SampledFrom([]int{0, 0, 1, 1, 2}).Draw(t, "n_imgs")
			for j := 0; j < ni; j++ {
				o.Imgs = append(o.Imgs, rapid.IntRange(0, 3).Draw(t, "img_at"))
			}
			o.Reserve = rapid.IntRange(0, 5).Draw(t, "reserve") == 0
			o.PutAny = rapid.Bool().Draw(t, "put_any")
		} else {
			o.Begin = rapid.IntRange(0, 20).Draw(t, "begin")
			o.Len = rapid.IntRange(0, 6).Draw(t, "len")
		}
		c.Ops = append(c.Ops, o)
	}
	return c
}

func c06EncRun(c c06EncCase) (info c06Info, err error) {
	defer func() {
		if r := recover(); r != nil {
			err = fmt.Errorf("panic: %v", r)
		}
	}()
	cls := map[string]bool{}
	defer func() {
		for k := range cls {
			info.classes = append(info.classes, k)
		}
	}()
	layers := max(1, min(c.Layers, 3))
	b := &c06Backend{maxNodes: 1 << 20, kdim: 2, heads: 1}
	b.cfg = ml.CacheConfig{PermutedV: c.PermuteV, CachePadding: 1}
	var backend ml.Backend = c06BackendCfg{b}
	enc := NewEncoderCache()
	var cache Cache = enc
	if c.Wrapped {
		cls["wrapped_with_causal"] = true
		cache = NewWrapperCache(enc, NewCausalCache(func(ctx ml.Context, layer int, key, shift ml.Tensor) (ml.Tensor, error) { return key, nil }))
	}
	cache.Init(backend, ml.DTypeF32, 1, 64, 8)
	defer cache.Close()

	// model
	cached, storedPos := false, int32(0)
	want := map[int][2]float32{} // layer -> ids of the data of the most recent Put (key, value)
	next := int32(0)             // next position of the sequence
	nextID := float32(1)
	puts := 0

	for oi, o := range c.Ops {
		switch o.Kind {
		case "fwd":
			n := max(1, min(o.N, 4))
			if !o.Reserve && int(next)+n > 56 {
				continue // stay inside the causal cache of the wrapper
			}
			var batch input.Batch
			for j := 0; j < n; j++ {
				batch.Positions = append(batch.Positions, next+int32(j))
				batch.Sequences = append(batch.Sequences, 0)
			}
			batch.Outputs = []int32{int32(n - 1)}
			hasImg := false
			lastImgPos := int32(0)
			seen := map[int]bool{}
			var idx []int
			for _, at := range o.Imgs {
				if i := at % n; !seen[i] {
					seen[i] = true
					idx = append(idx, i)
				}
			}
			// Multimodal entries are in batch order
			for i := 0; i < n; i++ {
				if seen[i] {
					batch.Multimodal = append(batch.Multimodal, input.MultimodalIndex{Index: i})
					hasImg, lastImgPos = true, batch.Positions[i]
				}
			}
			ctx := b.harnessCtx()
			if serr := cache.StartForward(ctx, batch, o.Reserve); serr != nil {
				return info, fmt.Errorf("op %d: StartForward: %v", oi, serr)
			}
			doPut := hasImg || (o.Reserve && o.PutAny)
			type lp struct{ k, v float32 }
			putNow := map[int]lp{}
			for l := 0; l < layers; l++ {
				cache.SetLayer(l)
				if c.Wrapped {
					cache.(*WrapperCache).SetLayerType(0) // cross-attention layers use the first (encoder) cache
				}
				if doPut {
					kid, vid := nextID, nextID+1
					nextID += 2
					fill := func(id float32, m int) []float32 {
						s := make([]float32, m)
						for i := range s {
							s[i] = id
						}
						return s
					}
					k, _ := ctx.FromFloatSlice(fill(kid, 2*3*1), 2, 3, 1)
					v, _ := ctx.FromFloatSlice(fill(vid, 2*3*1), 2, 3, 1)
					cache.Put(ctx, k, v)
					putNow[l] = lp{kid, vid}
					puts++
				}
			}
			ctx.Compute()
			if doPut {
				for l, p := range putNow {
					want[l] = [2]float32{p.k, p.v}
				}
				if !o.Reserve {
					cached, storedPos = true, lastImgPos
					cls["image_stored"] = true
					if len(idx) > 1 {
						cls["two_images_in_one_batch"] = true
					}
				} else {
					cls["reservation_pass_with_put"] = true
				}
			}
			if !o.Reserve {
				next += int32(n)
			}
			// what attention sees afterwards, per layer
			rctx := b.harnessCtx()
			for l := 0; l < layers; l++ {
				cache.SetLayer(l)
				if c.Wrapped {
					cache.(*WrapperCache).SetLayerType(0)
				}
				k, v, mask := cache.Get(rctx)
				if mask != nil {
					return info, fmt.Errorf("op %d: layer %d: the encoder cache returned a mask", oi, l)
				}
				w, stored := want[l]
				if !stored {
					if k != nil || v != nil {
						return info, fmt.Errorf("op %d: layer %d: Get returns tensors although nothing was ever stored for this layer", oi, l)
					}
					continue
				}
				if k == nil || v == nil {
					return info, fmt.Errorf("op %d: layer %d: Get returns nil although data (key id %v) was stored", oi, l, w[0])
				}
				for which, tns := range []ml.Tensor{k, v} {
					fs := tns.(*c06Tensor).Floats()
					if len(fs) != 6 {
						return info, fmt.Errorf("op %d: layer %d: Get returns %d elements, 6 were stored", oi, l, len(fs))
					}
					for _, f := range fs {
						if f != w[which] {
							return info, fmt.Errorf("op %d: layer %d: Get returns %s data of entry %v, the most recent Put stored entry %v", oi, l, []string{"key", "value"}[which], f, w[which])
						}
					}
				}
				cls["get_verified"] = true
			}
		case "remove":
			begin := int32(o.Begin % (int(next) + 2))
			end := begin + int32(o.Len)
			if o.Len == 0 {
				end = 1<<31 - 1
			}
			if c.Wrapped && end != 1<<31-1 && begin < next {
				// a middle removal shifts the causal cache; its contract (C06 main target) is not this target's subject:
				// only suffix removals through the wrapper
				end = 1<<31 - 1
			}
			if rerr := cache.Remove(0, begin, end); rerr != nil {
				return info, fmt.Errorf("op %d: Remove(0, %d, %d): %v", oi, begin, end, rerr)
			}
			if cached && storedPos >= begin && storedPos < end {
				cached = false
				cls["image_position_removed"] = true
			} else if cached {
				cls["remove_elsewhere_keeps_image"] = true
			}
			if end == 1<<31-1 && begin < next {
				next = begin
			}
		}
		if got := enc.EncoderCached(); got != cached {
			return info, fmt.Errorf("op %d (%s): EncoderCached() = %v, but the image stored at position %d %s", oi, o.Kind, got, storedPos,
				map[bool]string{true: "is still part of the sequence", false: "was removed (or nothing was stored)"}[cached])
		}
		if !cache.CanResume(0, next) && !c.Wrapped {
			return info, fmt.Errorf("op %d: CanResume(0, %d) = false on the encoder cache", oi, next)
		}
	}
	info.nontrivial = puts >= 2
	return info, nil
}

func TestC06Encoder(t *testing.T) {
	const target = "TestC06Encoder"
	rec := vfkit.Open(target)
	defer rec.Flush()
	var rc c06EncCase
	if _, ok, err := vfkit.ReplayCase(target, &rc); ok {
		if err != nil {
			t.Fatalf("replay: %v", err)
		}
		if _, err := c06EncRun(rc); err != nil {
			rec.Fail(target, rc, err.Error())
			t.Fatalf("C06 violated: %v", err)
		}
		return
	}
	rapid.Check(t, func(rt *rapid.T) {
		if rec.OverBudget() {
			return
		}
		c := c06EncGen(rt)
		info, err := c06EncRun(c)
		rec.Case(c, info.nontrivial, info.classes...)
		if err != nil {
			rec.Fail(target, c, err.Error())
			rt.Fatalf("C06 violated: %v", err)
		}
	})
}
