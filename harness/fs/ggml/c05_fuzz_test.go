package ggml

// Native coverage-guided mode of the C05 round trip (thorough tier only): rapid.MakeFuzz turns the fuzzer's byte
// string into the draws of c05Gen, so the case space is the rapid target's but the search follows coverage inside
// WriteGGUF / Decode instead of the library's random walk.

import (
	"testing"

	"pgregory.net/rapid"
)

func FuzzC05RoundTrip(f *testing.F) {
	f.Fuzz(rapid.MakeFuzz(func(rt *rapid.T) {
		c := c05Gen(rt)
		if _, err := c05Run(c); err != nil {
			rt.Fatalf("C05 violated: %v", err)
		}
	}))
}
