package ggml

// C05 — GGUF write → decode round trip (see /verif/DESIGN.md §3 C05).
// Generator: KV maps over exactly the value types WriteGGUF accepts, optional alignment, 0–40
// tensors of every supported kind whose byte sizes are usually not a multiple of the alignment.
// Oracle: Decode(WriteGGUF(x)) == x in both directions, tensor bytes found at decoded offsets,
// offsets aligned, end offset == file length.

import (
	"bytes"
	"fmt"
	"math"
	"os"
	"sort"
	"testing"

	"pgregory.net/rapid"
	"verif.local/vfkit"
)

type c05Str struct {
	Chunk  string `json:"chunk"`
	Repeat int    `json:"repeat"`
}

func (s c05Str) String() string { return string(bytes.Repeat([]byte(s.Chunk), s.Repeat)) }

type c05KV struct {
	Key  string   `json:"key"`
	Type string   `json:"type"` // u32 f32 bool str ai32 au32 af32 astr
	U    uint32   `json:"u,omitempty"`
	B    bool     `json:"b,omitempty"`
	S    c05Str   `json:"s,omitempty"`
	Arr  []uint32 `json:"arr,omitempty"` // bit patterns for ai32/au32/af32
	ArrN int      `json:"arr_n,omitempty"`
	Strs []c05Str `json:"strs,omitempty"`
}

type c05Tensor struct {
	Name  string   `json:"name"`
	Kind  uint32   `json:"kind"`
	Shape []uint64 `json:"shape"`
	Seed  uint32   `json:"seed"`
}

type c05Case struct {
	Align   uint32      `json:"align"` // 0 = key absent (default 32)
	KV      []c05KV     `json:"kv"`
	Tensors []c05Tensor `json:"tensors"`
}

var c05Kinds = []uint32{0, 1, 2, 3, 6, 7, 8, 9, 10, 11, 12, 13, 14, 15, 16, 17, 18, 19, 20, 21, 22, 23, 24, 25, 26, 27, 28, 29, 30}

func c05Bytes(seed uint32, n uint64) []byte {
	b := make([]byte, n)
	x := uint64(seed)*0x9E3779B97F4A7C15 + 1
	for i := range b {
		x ^= x << 13
		x ^= x >> 7
		x ^= x << 17
		b[i] = byte(x>>24) | 1 // never zero, so padding bytes are distinguishable from payload
	}
	return b
}

func c05GenStr(t *rapid.T, label string) c05Str {
	chunk := rapid.SampledFrom([]string{"", "a", "ab", "llama", "é", "日本", "\x00", "x y", "\xff\xfe"}).Draw(t, label+"chunk")
	rep := rapid.SampledFrom([]int{0, 1, 1, 2, 3, 7, 100, 4096, 8192, 16384, 16385, 20000}).Draw(t, label+"rep")
	if len(chunk)*rep > 70000 {
		rep = 70000 / len(chunk)
	}
	return c05Str{Chunk: chunk, Repeat: rep}
}

func c05Gen(t *rapid.T) c05Case {
	var c c05Case
	c.Align = rapid.SampledFrom([]uint32{0, 0, 1, 2, 4, 8, 16, 32, 64, 256, 24, 40, 96, 12, 7, 100}).Draw(t, "align")
	nkv := rapid.IntRange(0, 8).Draw(t, "nkv")
	seen := map[string]bool{"general.alignment": true, "general.parameter_count": true}
	for i := 0; i < nkv; i++ {
		var e c05KV
		pre := rapid.SampledFrom([]string{"general.", "tokenizer.ggml.", "llama.", "", "x."}).Draw(t, "pre")
		e.Key = pre + rapid.StringMatching(`[a-z_]{0,6}`).Draw(t, "key")
		if seen[e.Key] {
			continue
		}
		seen[e.Key] = true
		e.Type = rapid.SampledFrom([]string{"u32", "f32", "bool", "str", "ai32", "au32", "af32", "astr"}).Draw(t, "type")
		switch e.Type {
		case "u32":
			e.U = rapid.Uint32().Draw(t, "u")
		case "f32":
			e.U = rapid.OneOf(rapid.Uint32(), rapid.SampledFrom([]uint32{0, 0x80000000, 0x7fc00000, 0x7fc00001, 0xffc00000, 0x7f800000, 0xff800000, 1})).Draw(t, "fbits")
		case "bool":
			e.B = rapid.Bool().Draw(t, "b")
		case "str":
			e.S = c05GenStr(t, "s")
		case "ai32", "au32", "af32":
			e.ArrN = rapid.SampledFrom([]int{0, 1, 2, 5, 1023, 1024, 1025, 3000}).Draw(t, "arrn")
			e.Arr = rapid.SliceOfN(rapid.Uint32(), 1, 4).Draw(t, "arrpat")
		case "astr":
			n := rapid.SampledFrom([]int{0, 1, 2, 3, 1025}).Draw(t, "nstr")
			base := rapid.SliceOfN(rapid.Custom(func(t *rapid.T) c05Str { return c05GenStr(t, "e") }), 1, 3).Draw(t, "strs")
			for j := 0; j < n; j++ {
				s := base[j%len(base)]
				if n > 3 && s.Repeat > 7 {
					s.Repeat = 7
				}
				e.Strs = append(e.Strs, s)
			}
		}
		c.KV = append(c.KV, e)
	}
	nt := rapid.SampledFrom([]int{0, 1, 2, 3, 3, 4, 5, 8, 17, 40}).Draw(t, "ntensors")
	for i := 0; i < nt; i++ {
		var ts c05Tensor
		style := rapid.IntRange(0, 4).Draw(t, "namestyle")
		switch style {
		case 0, 1:
			ts.Name = fmt.Sprintf("blk.%d.w%d", rapid.IntRange(0, 12).Draw(t, "blk"), i)
		case 2:
			ts.Name = fmt.Sprintf("output%d.weight", i)
		case 3:
			ts.Name = fmt.Sprintf("t%d", i)
		default:
			ts.Name = fmt.Sprintf("blk.x.%d", i)
		}
		ts.Kind = rapid.SampledFrom(c05Kinds).Draw(t, "kind")
		nd := rapid.IntRange(0, 4).Draw(t, "ndims")
		bs := Tensor{Kind: ts.Kind}.blockSize()
		for d := 0; d < nd; d++ {
			n := uint64(rapid.IntRange(0, 7).Draw(t, "dim"))
			if d == 0 && bs > 1 && rapid.IntRange(0, 9).Draw(t, "blockmult") > 0 {
				n = bs * uint64(rapid.IntRange(1, 3).Draw(t, "nblocks"))
			}
			ts.Shape = append(ts.Shape, n)
		}
		ts.Seed = rapid.Uint32().Draw(t, "seed")
		c.Tensors = append(c.Tensors, ts)
	}
	return c
}

func c05Value(e c05KV) any {
	switch e.Type {
	case "u32":
		return e.U
	case "f32":
		return math.Float32frombits(e.U)
	case "bool":
		return e.B
	case "str":
		return e.S.String()
	case "ai32":
		v := make([]int32, e.ArrN)
		for i := range v {
			v[i] = int32(e.Arr[i%len(e.Arr)] + uint32(i))
		}
		return v
	case "au32":
		v := make([]uint32, e.ArrN)
		for i := range v {
			v[i] = e.Arr[i%len(e.Arr)] + uint32(i)
		}
		return v
	case "af32":
		v := make([]float32, e.ArrN)
		for i := range v {
			v[i] = math.Float32frombits(e.Arr[i%len(e.Arr)] + uint32(i))
		}
		return v
	case "astr":
		v := make([]string, len(e.Strs))
		for i := range v {
			v[i] = e.Strs[i].String()
		}
		return v
	}
	panic("bad type " + e.Type)
}

// c05Same compares a written value with a decoded one, bitwise for floats.
func c05Same(w, d any) error {
	arr := func(n int, at func(i int) any) error {
		a, ok := d.(*array)
		if !ok {
			return fmt.Errorf("decoded %T, want array", d)
		}
		if a.size != n || len(a.values) != n {
			return fmt.Errorf("array size %d (values %d), want %d", a.size, len(a.values), n)
		}
		for i := 0; i < n; i++ {
			if err := c05Same(at(i), a.values[i]); err != nil {
				return fmt.Errorf("element %d: %w", i, err)
			}
		}
		return nil
	}
	switch w := w.(type) {
	case uint32:
		if v, ok := d.(uint32); !ok || v != w {
			return fmt.Errorf("got %T %v want uint32 %v", d, d, w)
		}
	case int32:
		if v, ok := d.(int32); !ok || v != w {
			return fmt.Errorf("got %T %v want int32 %v", d, d, w)
		}
	case float32:
		if v, ok := d.(float32); !ok || math.Float32bits(v) != math.Float32bits(w) {
			return fmt.Errorf("got %T %v want float32 %v (bits %08x)", d, d, w, math.Float32bits(w))
		}
	case bool:
		if v, ok := d.(bool); !ok || v != w {
			return fmt.Errorf("got %T %v want bool %v", d, d, w)
		}
	case string:
		if v, ok := d.(string); !ok || v != w {
			return fmt.Errorf("got %T len %d want string len %d", d, len(fmt.Sprint(d)), len(w))
		}
	case []int32:
		return arr(len(w), func(i int) any { return w[i] })
	case []uint32:
		return arr(len(w), func(i int) any { return w[i] })
	case []float32:
		return arr(len(w), func(i int) any { return w[i] })
	case []string:
		return arr(len(w), func(i int) any { return w[i] })
	default:
		return fmt.Errorf("unexpected written type %T", w)
	}
	return nil
}

type c05Info struct {
	nontrivial bool
	classes    []string
}

func c05Run(c c05Case) (info c05Info, err error) {
	kv := KV{}
	align := uint64(32)
	if c.Align != 0 {
		kv["general.alignment"] = c.Align
		align = uint64(c.Align)
	}
	for _, e := range c.KV {
		kv[e.Key] = c05Value(e)
	}
	var ts []Tensor
	payload := map[string][]byte{}
	want := map[string]c05Tensor{}
	unalignedBeforeLast := 0
	for i, s := range c.Tensors {
		t := Tensor{Name: s.Name, Kind: s.Kind, Shape: append([]uint64{}, s.Shape...)}
		sz := t.Size()
		t.WriterTo = bytes.NewReader(c05Bytes(s.Seed, sz))
		payload[s.Name] = c05Bytes(s.Seed, sz)
		want[s.Name] = s
		ts = append(ts, t)
		if sz%align != 0 && i < len(c.Tensors)-1 {
			unalignedBeforeLast++
		}
	}
	info.nontrivial = len(c.Tensors) >= 3 && unalignedBeforeLast >= 2
	if info.nontrivial {
		info.classes = append(info.classes, "three_tensors_unaligned")
	}
	if c.Align != 0 && c.Align != 32 {
		info.classes = append(info.classes, "nondefault_alignment")
	}
	if len(c.Tensors) == 0 {
		info.classes = append(info.classes, "no_tensors")
	}

	f, err := os.CreateTemp("", "c05-*.gguf")
	if err != nil {
		return info, nil // environment problem, not a verdict
	}
	defer os.Remove(f.Name())
	defer f.Close()
	if err := WriteGGUF(f, kv, ts); err != nil {
		return info, fmt.Errorf("WriteGGUF: %v", err)
	}
	file, err := os.ReadFile(f.Name())
	if err != nil {
		return info, nil
	}
	m, end, err := Decode(bytes.NewReader(file), -1)
	if err != nil {
		return info, fmt.Errorf("Decode of written file: %v", err)
	}
	if end != int64(len(file)) {
		return info, fmt.Errorf("decoder end offset %d != file length %d", end, len(file))
	}
	// KV both directions
	got := m.KV()
	for k, w := range kv {
		d, ok := got[k]
		if !ok {
			return info, fmt.Errorf("key %q lost", k)
		}
		if err := c05Same(w, d); err != nil {
			return info, fmt.Errorf("key %q: %v", k, err)
		}
	}
	for k := range got {
		if _, ok := kv[k]; !ok && k != "general.parameter_count" {
			return info, fmt.Errorf("key %q invented", k)
		}
	}
	// the same file under a collect limit (0 = the default of 1024, what the server and create use; or the size of one
	// of the arrays, or a small number): an array of at most that many elements decodes to the same values, a longer one
	// to its size only; everything else is as without a limit
	limits := []int{0, 5}
	for _, w := range kv {
		switch a := w.(type) {
		case []int32:
			limits = append(limits, len(a))
		case []string:
			limits = append(limits, len(a))
		}
	}
	for _, lim := range limits[:min(len(limits), 4)] {
		eff := lim
		if eff == 0 {
			eff = 1024
		}
		ml, endl, lerr := Decode(bytes.NewReader(file), lim)
		if lerr != nil {
			return info, fmt.Errorf("Decode(limit %d) of written file: %v", lim, lerr)
		}
		if endl != end {
			return info, fmt.Errorf("Decode(limit %d) reports end offset %d, Decode(-1) %d", lim, endl, end)
		}
		gl := ml.KV()
		for k, w := range kv {
			d, ok := gl[k]
			if !ok {
				return info, fmt.Errorf("limit %d: key %q lost", lim, k)
			}
			n := -1
			switch a := w.(type) {
			case []int32:
				n = len(a)
			case []uint32:
				n = len(a)
			case []float32:
				n = len(a)
			case []string:
				n = len(a)
			}
			if n > eff {
				a, ok := d.(*array)
				if !ok || a.size != n || len(a.values) != 0 {
					return info, fmt.Errorf("limit %d: key %q (array of %d) decoded to %T size/values %v, want size only", lim, k, n, d, d)
				}
				continue
			}
			if n == eff {
				info.classes = append(info.classes, "array_exactly_at_collect_limit")
			}
			if err := c05Same(w, d); err != nil {
				return info, fmt.Errorf("limit %d: key %q: %v", lim, k, err)
			}
		}
	}
	// tensors both directions
	items := m.Tensors().Items()
	if len(items) != len(c.Tensors) {
		return info, fmt.Errorf("decoded %d tensors, wrote %d", len(items), len(c.Tensors))
	}
	base := m.Tensors().Offset
	if base%align != 0 {
		return info, fmt.Errorf("tensor data base %d not aligned to %d", base, align)
	}
	seen := map[string]bool{}
	type span struct{ lo, hi uint64 }
	var spans []span
	for _, it := range items {
		w, ok := want[it.Name]
		if !ok || seen[it.Name] {
			return info, fmt.Errorf("tensor %q invented or duplicated", it.Name)
		}
		seen[it.Name] = true
		if it.Kind != w.Kind {
			return info, fmt.Errorf("tensor %q kind %d want %d", it.Name, it.Kind, w.Kind)
		}
		if len(it.Shape) != len(w.Shape) {
			return info, fmt.Errorf("tensor %q dims %d want %d", it.Name, len(it.Shape), len(w.Shape))
		}
		for i := range w.Shape {
			if it.Shape[i] != w.Shape[len(w.Shape)-1-i] {
				return info, fmt.Errorf("tensor %q shape %v want reverse of %v", it.Name, it.Shape, w.Shape)
			}
		}
		if it.Offset%align != 0 {
			return info, fmt.Errorf("tensor %q offset %d not a multiple of alignment %d", it.Name, it.Offset, align)
		}
		p := payload[it.Name]
		lo := base + it.Offset
		hi := lo + uint64(len(p))
		if hi > uint64(len(file)) {
			return info, fmt.Errorf("tensor %q at [%d,%d) beyond file length %d", it.Name, lo, hi, len(file))
		}
		if !bytes.Equal(file[lo:hi], p) {
			return info, fmt.Errorf("tensor %q: bytes at decoded location [%d,%d) differ from the bytes written (%d tensors, alignment %d)", it.Name, lo, hi, len(items), align)
		}
		if len(p) > 0 {
			spans = append(spans, span{lo, hi})
		}
	}
	sort.Slice(spans, func(i, j int) bool { return spans[i].lo < spans[j].lo })
	for i := 1; i < len(spans); i++ {
		if spans[i].lo < spans[i-1].hi {
			return info, fmt.Errorf("decoded tensor locations overlap: [%d,%d) and [%d,%d)", spans[i-1].lo, spans[i-1].hi, spans[i].lo, spans[i].hi)
		}
	}
	return info, nil
}

func TestC05RoundTrip(t *testing.T) {
	const target = "TestC05RoundTrip"
	rec := vfkit.Open(target)
	defer rec.Flush()
	var rc c05Case
	if _, ok, err := vfkit.ReplayCase(target, &rc); ok {
		if err != nil {
			t.Fatalf("replay: %v", err)
		}
		if _, err := c05Run(rc); err != nil {
			rec.Fail(target, rc, err.Error())
			t.Fatalf("C05 violated: %v", err)
		}
		return
	}
	rapid.Check(t, func(rt *rapid.T) {
		if rec.OverBudget() {
			return
		}
		c := c05Gen(rt)
		info, err := c05Run(c)
		rec.Case(c, info.nontrivial, info.classes...)
		if err != nil {
			rec.Fail(target, c, err.Error())
			rt.Fatalf("C05 violated: %v", err)
		}
	})
}
