package ggml

// C10 layer 1 — untrusted model files at the decoder (see /verif/DESIGN.md §3 C10).
// Generator: verifc10gen (valid GGUF serialised field by field, 0-3 field-addressed mutations).
// Oracle: Decode(bytes, n) for n in {0, -1} returns (model, nil) or (nil, err): no panic, a bounded
// number of Read/Seek calls on the underlying reader, TotalAlloc delta <= 16 MiB + 64*len(input);
// on success the metadata accessors used by create/show (and, as a separately named class, the
// load-path estimators GQA/GraphSize) must not panic either.

import (
	"bytes"
	"encoding/json"
	"errors"
	"fmt"
	"io"
	"runtime/debug"
	"runtime/metrics"
	"sort"
	"strings"
	"testing"

	c10gen "github.com/ollama/ollama/verifc10gen"
	"pgregory.net/rapid"
	"verif.local/vfkit"
)

type c10Info struct {
	nontrivial bool
	classes    []string
}

var errC10Steps = errors.New("c10: step budget exceeded")

type c10StepPanic struct{}

// c10RS counts the calls the decoder makes on the underlying reader.
type c10RS struct {
	r        *bytes.Reader
	steps    int64
	limit    int64
	exceeded bool
}

func (c *c10RS) tick() error {
	c.steps++
	if c.steps > c.limit {
		c.exceeded = true
		if c.steps > 2*c.limit {
			panic(c10StepPanic{})
		}
		return errC10Steps
	}
	return nil
}

func (c *c10RS) Read(p []byte) (int, error) {
	if err := c.tick(); err != nil {
		return 0, err
	}
	return c.r.Read(p)
}

func (c *c10RS) Seek(off int64, whence int) (int64, error) {
	if err := c.tick(); err != nil {
		return 0, err
	}
	return c.r.Seek(off, whence)
}

// c10Frame names the innermost ollama frame of a stack (skipping harness files): the root-cause key.
func c10Frame(stack []byte) string {
	lines := strings.Split(string(stack), "\n")
	for i := 0; i+1 < len(lines); i++ {
		fn := lines[i]
		if !strings.HasPrefix(fn, "github.com/ollama/ollama/") {
			continue
		}
		file := strings.TrimSpace(lines[i+1])
		if strings.Contains(file, "zz_verif_") || strings.Contains(file, "/verif") || strings.Contains(fn, "verifc10gen") {
			continue
		}
		fn = strings.TrimPrefix(fn, "github.com/ollama/ollama/")
		if j := strings.LastIndex(fn, "("); j > 0 {
			fn = fn[:j]
		}
		if j := strings.LastIndex(file, "/"); j >= 0 {
			file = file[j+1:]
		}
		if j := strings.Index(file, " "); j > 0 {
			file = file[:j]
		}
		return fn + " (" + file + ")"
	}
	return "(no ollama frame)"
}

// cumulative bytes allocated on the heap (runtime/metrics: no stop-the-world; large allocations are
// counted at once, small ones with span granularity, i.e. to well under 1 MiB — the budget starts at 16 MiB)
var c10AllocSample = []metrics.Sample{{Name: "/gc/heap/allocs:bytes"}}

func c10TotalAlloc() uint64 {
	metrics.Read(c10AllocSample)
	return c10AllocSample[0].Value.Uint64()
}

type c10Outcome struct {
	model *GGML
	end   int64
	err   error
	viol  string // non-empty: the property is violated
	steps int64
	alloc uint64
}

func c10AllocBudget(n int) uint64 { return 16<<20 + 64*uint64(n) }
func c10StepBudget(n int) int64   { return 4*int64(n) + 256 }

// c10Decode runs Decode under the three observers (panic, steps, allocation).
func c10Decode(data []byte, maxArr int) (out c10Outcome) {
	rs := &c10RS{r: bytes.NewReader(data), limit: c10StepBudget(len(data))}
	a0 := c10TotalAlloc()
	func() {
		defer func() {
			if r := recover(); r != nil {
				if _, ok := r.(c10StepPanic); ok {
					out.viol = fmt.Sprintf("Decode(n=%d) kept calling the reader after %d failed calls beyond the step budget", maxArr, rs.limit)
					return
				}
				out.viol = fmt.Sprintf("Decode(n=%d) panicked: %v at %s", maxArr, r, c10Frame(debug.Stack()))
			}
		}()
		out.model, out.end, out.err = Decode(rs, maxArr)
	}()
	out.alloc = c10TotalAlloc() - a0
	out.steps = rs.steps
	if out.viol != "" {
		return out
	}
	if rs.exceeded {
		out.viol = fmt.Sprintf("Decode(n=%d) made more than %d Read/Seek calls on a %d-byte input (step budget 4*len+256)", maxArr, rs.limit, len(data))
		return out
	}
	if out.alloc > c10AllocBudget(len(data)) {
		out.viol = fmt.Sprintf("Decode(n=%d) allocated %d bytes for a %d-byte input (budget 16 MiB + 64*len = %d); result err=%v", maxArr, out.alloc, len(data), c10AllocBudget(len(data)), out.err)
		return out
	}
	if out.err == nil && out.model == nil {
		out.viol = fmt.Sprintf("Decode(n=%d) returned neither a model nor an error", maxArr)
	}
	return out
}

func c10Guard(name string, f func()) (viol string) {
	defer func() {
		if r := recover(); r != nil {
			viol = fmt.Sprintf("%s panicked on a decoded file: %v at %s", name, r, c10Frame(debug.Stack()))
		}
	}()
	f()
	return ""
}

// c10MistypedKey reports a well-known key, read by the typed accessors below, whose decoded value
// has another Go type than the accessor asserts (used only to exclude the listed finding).
func c10MistypedKey(kv KV) string {
	if v, ok := kv["general.architecture"]; ok {
		if _, ok := v.(string); !ok {
			return "general.architecture"
		}
	}
	arch, _ := kv["general.architecture"].(string)
	if _, ok := kv["general.architecture"]; !ok {
		arch = "unknown"
	}
	for _, k := range []string{"general.type", "tokenizer.chat_template"} {
		if v, ok := kv[k]; ok {
			if _, ok := v.(string); !ok {
				return k
			}
		}
	}
	u32 := []string{"general.file_type"}
	for _, s := range []string{"block_count", "embedding_length", "context_length", "attention.head_count", "attention.head_count_kv",
		"attention.key_length", "attention.value_length", "attention.sliding_window", "vision.block_count", "vision.image_size", "vision.patch_size",
		"vision.num_channels", "vision.attention.head_count", "vision.embedding_length", "vision.max_num_tiles"} {
		u32 = append(u32, arch+"."+s)
	}
	for _, k := range u32 {
		if v, ok := kv[k]; ok {
			if _, ok := v.(uint32); !ok {
				return k
			}
		}
	}
	return ""
}

// c10Accessors calls what create/show call on a decoded file. skipLoad leaves out the load-path
// estimators (separately named finding).
func c10Accessors(m *GGML, skipLoad bool) string {
	kv := m.KV()
	steps := []struct {
		name string
		f    func()
	}{
		{"KV.Architecture", func() { _ = kv.Architecture() }},
		{"KV.Kind", func() { _ = kv.Kind() }},
		{"KV.FileType", func() { _ = kv.FileType().String() }},
		{"KV.ChatTemplate", func() { _ = kv.ChatTemplate() }},
		{"KV.ParameterCount", func() { _ = kv.ParameterCount() }},
		{"KV.BlockCount", func() { _ = kv.BlockCount() }},
		{"KV.EmbeddingLength", func() { _ = kv.EmbeddingLength() }},
		{"KV.HeadCount", func() { _ = kv.HeadCount() }},
		{"KV.HeadCountKV", func() { _ = kv.HeadCountKV() }},
		{"KV.EmbeddingHeadCount", func() { _ = kv.EmbeddingHeadCount() }},
		{"KV.EmbeddingHeadCountK", func() { _ = kv.EmbeddingHeadCountK() }},
		{"KV.EmbeddingHeadCountV", func() { _ = kv.EmbeddingHeadCountV() }},
		{"KV.ContextLength", func() { _ = kv.ContextLength() }},
		{"KV.OllamaEngineRequired", func() { _ = kv.OllamaEngineRequired() }},
		{"GGML.SupportsFlashAttention", func() { _ = m.SupportsFlashAttention() }},
		{"GGML.VisionGraphSize", func() { _, _ = m.VisionGraphSize() }},
		{"Tensors.Items/Type/Size", func() {
			for _, t := range m.Tensors().Items() {
				_ = t.Type()
				_ = t.Size()
				_ = t.block()
			}
		}},
		{"Tensors.GroupLayers", func() {
			for _, l := range m.Tensors().GroupLayers() {
				_ = l.Size()
			}
		}},
		{"json.Marshal(KV) as in /api/show", func() { _, _ = json.Marshal(kv) }},
	}
	for _, s := range steps {
		if v := c10Guard(s.name, s.f); v != "" {
			return v
		}
	}
	if skipLoad {
		return ""
	}
	// load path (scheduler -> llm.EstimateGPULayers): the allocation of GraphSize is one uint64 per
	// declared block by design, so it is only exercised for a small declared block count.
	if v := c10Guard("KV.GQA", func() { _ = kv.GQA() }); v != "" {
		return v
	}
	if kv.BlockCount() <= 4096 {
		if v := c10Guard("GGML.GraphSize", func() { _, _, _ = m.GraphSize(8, 4, 1, "f16") }); v != "" {
			return v
		}
	}
	return ""
}

func c10ErrClass(err error) string {
	s := err.Error()
	switch {
	case errors.Is(err, io.ErrUnexpectedEOF):
		return "err:unexpected_eof"
	case errors.Is(err, io.EOF):
		return "err:eof"
	case strings.Contains(s, "invalid file magic"):
		return "err:magic"
	case strings.Contains(s, "invalid type"), strings.Contains(s, "invalid array type"):
		return "err:invalid_type"
	case strings.Contains(s, "negative position"), strings.Contains(s, "seek"):
		return "err:seek"
	case strings.Contains(s, "invalid "):
		return "err:invalid_other" // bounds rejected by a (patched) decoder: string length, array size, dims, alignment
	}
	return "err:other"
}

// c10Run is the deterministic part: a pure function of the case and the code under test. known
// says which listed findings are excluded (nil = none, as in replays); excluded is called for each
// sub-run dropped for that reason.
func c10Run(c c10gen.Case, known func(string) bool, excluded func(string)) (info c10Info, err error) {
	base := c10gen.Build(c)
	ap := c10gen.Apply(c, base)
	data := ap.Data
	cls := map[string]bool{}
	add := func(s string) { cls[s] = true }
	defer func() {
		for k := range cls {
			info.classes = append(info.classes, k)
		}
		sort.Strings(info.classes)
	}()
	switch c.Version {
	case 1, 2, 3:
		add(fmt.Sprintf("v%d", c.Version))
	default:
		add("vother")
	}
	if c.BE {
		add("big_endian")
	}
	add(fmt.Sprintf("muts_%d", len(c.Muts)))
	for _, k := range ap.Kinds {
		add("mut:" + k)
	}
	if base.Retyped > 0 {
		add("retyped_wellknown_key")
	}
	if !ap.Changed {
		add("bytes_unchanged")
	}
	for _, n := range []int{0, -1} {
		tag := "n0"
		if n < 0 {
			tag = "nall"
		}
		pred := c10gen.Predict(data, n)
		if n == 0 {
			if pred.HeaderOK {
				add("header_ok")
			}
			add("stage:" + pred.Stage)
			info.nontrivial = pred.HeaderOK && (ap.Changed || base.Retyped > 0)
		}
		if pred.Class != "" {
			add("pred:" + pred.Class)
			if known != nil && known(pred.Class) {
				excluded(pred.Class)
				continue
			}
		}
		out := c10Decode(data, n)
		if out.viol != "" {
			return info, errors.New(out.viol)
		}
		if out.err != nil {
			add("decode_error_" + tag)
			add(c10ErrClass(out.err))
			continue
		}
		add("decoded_ok_" + tag)
		if ap.Changed {
			add("decoded_ok_after_mutation")
		}
		if pred.BackSeek {
			add("decoded_with_backward_seek")
		}
		kv := out.model.KV()
		if known != nil && known("keyvalue-type") {
			if k := c10MistypedKey(kv); k != "" {
				excluded("keyvalue-type")
				continue
			}
		}
		skipLoad := known != nil && known("graphsize-metadata")
		if skipLoad {
			excluded("graphsize-metadata")
		}
		add("accessors_run")
		if v := c10Accessors(out.model, skipLoad); v != "" {
			return info, errors.New(v)
		}
	}
	return info, nil
}

func TestC10Decode(t *testing.T) {
	const target = "TestC10Decode"
	rec := vfkit.Open(target)
	defer rec.Flush()
	debug.SetGCPercent(100)
	var rc c10gen.Case
	if rp, ok, err := vfkit.ReplayCase(target, &rc); ok {
		if err != nil {
			t.Fatalf("replay: %v", err)
		}
		rec.Current(target, rc)
		// a replay demonstrates its own finding; other *listed* findings stay excluded so that it is
		// not reported for a defect it is not about
		own := ""
		if rp != nil {
			own = strings.TrimPrefix(rp.Expect, "known:")
		}
		known := func(s string) bool { return s != own && rec.Known(s) }
		if _, err := c10Run(rc, known, func(string) {}); err != nil {
			rec.Fail(target, rc, err.Error())
			t.Fatalf("C10 violated: %v", err)
		}
		return
	}
	rapid.Check(t, func(rt *rapid.T) {
		if rec.OverBudget() {
			return
		}
		c := c10gen.Gen(rt)
		rec.Current(target, c) // a giant make dies under ulimit -v: the driver attributes the death to this case
		info, err := c10Run(c, rec.Known, rec.Excluded)
		rec.Case(c, info.nontrivial, info.classes...)
		if err != nil {
			rec.Fail(target, c, err.Error())
			rt.Fatalf("C10 violated: %v", err)
		}
	})
}

// FuzzC10Decode is the native fuzz target for the thorough tier (the driver has no fuzz support yet:
// run it by hand with `go test -fuzz FuzzC10Decode` through the same overlay). Seeds are structured
// files from the generator's vocabulary; the oracle is the byte-level part of c10Run.
func FuzzC10Decode(f *testing.F) {
	seeds := []c10gen.Case{
		{Version: 3},
		{Version: 3, KV: []c10gen.KV{{Key: "general.architecture", Type: 8, S: c10gen.Str{Chunk: "llama", Repeat: 1}}, {Key: "general.alignment", Type: 4, Bits: 32},
			{Key: "tokenizer.ggml.tokens", Type: 9, AType: 8, N: 3, Strs: []c10gen.Str{{Chunk: "a", Repeat: 1}}}, {Key: "llama.block_count", Type: 4, Bits: 2}},
			Tensors: []c10gen.Tensor{{Name: "blk.0.attn_q.weight", Kind: 0, Shape: []uint64{2, 3}}, {Name: "output.weight", Kind: 2, Shape: []uint64{32}}}},
		{Version: 2, BE: true, KV: []c10gen.KV{{Key: "general.file_type", Type: 4, Bits: 1}, {Key: "x", Type: 9, AType: 6, N: 5, Pat: []uint64{1}}},
			Tensors: []c10gen.Tensor{{Name: "t", Kind: 1, Shape: []uint64{4}}}},
		{Version: 1, KV: []c10gen.KV{{Key: "general.name", Type: 8, S: c10gen.Str{Chunk: "m", Repeat: 1}}, {Key: "y", Type: 9, AType: 4, N: 2, Pat: []uint64{7}}},
			Tensors: []c10gen.Tensor{{Name: "t", Kind: 0, Shape: []uint64{1}}}},
	}
	for _, s := range seeds {
		f.Add(c10gen.Build(s).Data)
	}
	f.Fuzz(func(t *testing.T, data []byte) {
		for _, n := range []int{0, -1} {
			out := c10Decode(data, n)
			if out.viol != "" {
				t.Fatalf("C10 violated: %s", out.viol)
			}
			if out.err == nil {
				if v := c10Accessors(out.model, false); v != "" {
					t.Fatalf("C10 violated: %s", v)
				}
			}
		}
	})
}
