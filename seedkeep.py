#!/usr/bin/env python3
"""seedkeep.py <name> <change dir> <eval json> : keep a confirmed seeded change under /verif/seeded/<name>/."""
import json, os, shutil, sys
name, cdir, ev = sys.argv[1:4]
r = json.load(open(ev))
ok = all(r.get(k) for k in ("applies", "builds", "existing_tests_pass", "demo_fails_with_change", "demo_passes_without_change"))
if not ok:
    print("NOT CONFIRMED", {k: r.get(k) for k in ("applies", "builds", "existing_tests_pass", "demo_fails_with_change", "demo_passes_without_change")})
    sys.exit(1)
d = os.path.join("/verif/seeded", name)
os.makedirs(d, exist_ok=True)
shutil.copy(os.path.join(cdir, "patch.diff"), d)
shutil.copy(os.path.join(cdir, "demo_test.go"), d)
m = json.load(open(os.path.join(cdir, "meta.json")))
meta = {
    "property": r["property"],
    "summary": m.get("summary"),
    "needs_to_manifest": m.get("needs_to_manifest"),
    "files_changed": m.get("files_changed"),
    "author_demo_instructions": m.get("demo"),
    "confirmed_by_maintainer": {
        "repo_head": r["repo_head"],
        "what_i_ran": "scratch worktree of /repo HEAD: demo without the change (pass), git apply patch.diff, go build ./..., "
                      + r.get("existing_tests_cmd", "") + " (pass), demo with the change (fail); then VERIF_REPO=<worktree> ./check <ID> (quick tier) for the checks below [seedtest.py]",
        "demo_passes_without_change": True, "demo_fails_with_change": True, "existing_tests_pass": True,
    },
    "checks": r.get("checks", {}),
    "caught_by": sorted(c for c, v in r.get("checks", {}).items() if v.get("exit") == 1),
}
json.dump(meta, open(os.path.join(d, "meta.json"), "w"), indent=1)
print(name, "kept; caught by", meta["caught_by"])
