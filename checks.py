"""Per-property configuration of the /verif driver: one file checks.d/<ID>.py per claimed property,
each defining CHECK = {...} (see HARNESS_GUIDE.md for the keys)."""
import glob, os

CHECKS = {}
NOT_CLAIMED = {}
_d = os.path.join(os.path.dirname(os.path.abspath(__file__)), "checks.d")
for _f in sorted(glob.glob(os.path.join(_d, "C*.py"))):
    _ns = {}
    exec(compile(open(_f).read(), _f, "exec"), _ns)
    _id = os.path.basename(_f)[:-3]
    if "CHECK" in _ns:
        CHECKS[_id] = _ns["CHECK"]
    if "NOT_CLAIMED" in _ns:
        NOT_CLAIMED[_id] = _ns["NOT_CLAIMED"]
