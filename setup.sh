#!/bin/bash
# Offline setup after a fresh restore: warm the go1.26.8 build cache for the packages the
# harnesses compile into (normal and -race), so that each quick check only pays a warm build.
set -u
cd "$(dirname "$0")"
mkdir -p build evidence out
ids=$(python3 -c "
import sys; sys.path.insert(0,'.')
from checks import CHECKS
print(' '.join(sorted(CHECKS)))")
printf '%s\n' $ids | xargs -P 4 -I{} sh -c './check {} --build-only >build/setup-{}.log 2>&1 && echo "setup: {} ok" || echo "setup: {} build failed (see build/setup-{}.log)"'
exit 0
