import subprocess, sys, os
WT='/tmp/wt-c03'
muts = {
 'S1 manifest written before the layers are downloaded': ('server/images.go', """	var layers []Layer
	layers = append(layers, manifest.Layers...)
	if manifest.Config.Digest != "" {
		layers = append(layers, manifest.Config)
	}

	for _, layer := range layers {
		// a blob is verified""", """	if fp0, err := mp.GetManifestPath(); err == nil {
		if b0, err := json.Marshal(manifest); err == nil {
			os.MkdirAll(filepath.Dir(fp0), 0o755)
			os.WriteFile(fp0, b0, 0o644)
		}
	}
	var layers []Layer
	layers = append(layers, manifest.Layers...)
	if manifest.Config.Digest != "" {
		layers = append(layers, manifest.Config)
	}

	for _, layer := range layers {
		// a blob is verified"""),
 'S2 no verification before rename': ('server/download.go', "	verifyErr := verifyFileDigest(file.Name(), b.Digest)\n", "	var verifyErr error\n"),
 'S3 part progress persisted before the bytes are written': ('server/download.go', """		n, err := io.CopyN(w, io.TeeReader(resp.Body, part), part.Size-part.Completed.Load())
""", """		part.Completed.Add(part.Size - part.Completed.Load())
		b.writePart(part.Name(), part)
		part.Completed.Store(0)
		n, err := io.CopyN(w, io.TeeReader(resp.Body, part), part.Size-part.Completed.Load())
"""),
 'S4 rename although a part is incomplete (ignore part errors)': ('server/download.go', """	if err := g.Wait(); err != nil {
		return err
	}

	// explicitly close""", """	if err := g.Wait(); err != nil && errors.Is(err, context.Canceled) {
		return err
	}

	// explicitly close"""),
 'S8 verification result ignored': ('server/download.go', """	if verifyErr != nil {
		// something went wrong""", """	if false && verifyErr != nil {
		// something went wrong"""),
 'S9 stored manifest drops the last layer': ('server/images.go', """	manifestJSON, err := json.Marshal(manifest)
	if err != nil {
		return err
	}

	fp, err := mp.GetManifestPath()""", """	if len(manifest.Layers) > 1 {
		manifest.Layers = manifest.Layers[:len(manifest.Layers)-1]
	}
	manifestJSON, err := json.Marshal(manifest)
	if err != nil {
		return err
	}

	fp, err := mp.GetManifestPath()"""),
 'S10 success reported although a layer download failed (error swallowed for config)': ('server/images.go', """		}); err != nil {
			return err
		}
		delete(deleteMap, layer.Digest)""", """		}); err != nil && layer.MediaType != "application/vnd.docker.container.image.v1+json" {
			return err
		}
		delete(deleteMap, layer.Digest)"""),
 'S11 stall watchdog never fires and stalled body blocks pull for ever (not a C03 violation, expect exit 0)': ('server/download.go', "time.Since(lastUpdated) > 30*time.Second", "time.Since(lastUpdated) > 30000*time.Hour"),
 'S5 revert getValue bounds check': ('server/images.go', """	if startIdx > len(header) {
		// nothing after "key=": malformed challenge
		return ""
	}
""", ""),
 'S6 old manifest layers pruned before the new manifest is written': ('server/images.go', """	fn(api.ProgressResponse{Status: "writing manifest"})
""", """	if len(deleteMap) > 0 {
		deleteUnusedLayers(deleteMap)
	}
	if len(layers) > 2 {
		return errors.New("injected failure after prune")
	}
	fn(api.ProgressResponse{Status: "writing manifest"})
"""),
 'S7 resume ignores Completed offset (range restarts at part offset but writes at StartsAt)': ('server/download.go', """		req.Header.Set("Range", fmt.Sprintf("bytes=%d-%d", part.StartsAt(), part.StopsAt()-1))""", """		req.Header.Set("Range", fmt.Sprintf("bytes=%d-%d", part.Offset, part.StopsAt()-1))"""),
}
only = sys.argv[1:]
for name,(f,old,new) in muts.items():
    if only and not any(name.startswith(o) for o in only): continue
    P=WT+'/'+f
    orig=open(P).read()
    assert old in orig, name
    open(P,'w').write(orig.replace(old,new,1))
    b=subprocess.run(['go','build','./server/'],cwd=WT,capture_output=True,text=True,env=dict(os.environ,GOFLAGS='-mod=mod'))
    r=subprocess.run(['./check','C03'],cwd='/verif',capture_output=True,text=True,env=dict(os.environ,VERIF_REPO=WT))
    first=[l for l in r.stdout.splitlines() if l.strip() and not l.startswith('C03') and not l.startswith('KNOWN')][:1]
    print(name,'| build','ok' if b.returncode==0 else 'FAIL: '+b.stderr[:200],'| exit',r.returncode, first[0].strip()[:220] if first else '', flush=True)
    open(P,'w').write(orig)
