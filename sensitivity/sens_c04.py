import subprocess, sys, os
WT='/tmp/wt-c04'
muts = {
 'S1 Layer.Remove without the reference scan': ('server/layer.go', """			if layer.Digest == l.Digest {
				// something is using this layer
				return nil
			}""", """			if false && layer.Digest == l.Digest {
				// something is using this layer
				return nil
			}"""),
 'S3 getExistingName returns its input': ('server/routes.go', """	for e := range existing {
		if !strings.EqualFold(e.Host, n.Host) {
			continue
		}""", """	for e := range existing {
		if true || !strings.EqualFold(e.Host, n.Host) {
			continue
		}"""),
 'S4 startup prune ignores config references': ('server/images.go', """		delete(deleteMap, manifest.Config.Digest)
	}

	// only delete the files which are still in the deleteMap""", """	}

	// only delete the files which are still in the deleteMap"""),
 'S5 pull prunes layers of the old version even if another model uses them': ('server/images.go', """	if !envconfig.NoPrune() && len(deleteMap) > 0 {
		fn(api.ProgressResponse{Status: "removing unused layers"})
		if err := deleteUnusedLayers(deleteMap); err != nil {""", """	if !envconfig.NoPrune() && len(deleteMap) > 0 {
		fn(api.ProgressResponse{Status: "removing unused layers"})
		for k := range deleteMap {
			if fp, err := GetBlobsPath(k); err == nil {
				os.Remove(fp)
			}
		}
		if err := deleteUnusedLayers(deleteMap); err != nil {"""),
 'S6 copy drops the last layer of the manifest': ('server/images.go', """	_, err = io.Copy(dstfile, srcfile)
	return err
}""", """	var mm Manifest
	if err := json.NewDecoder(srcfile).Decode(&mm); err != nil {
		return err
	}
	if len(mm.Layers) > 1 {
		mm.Layers = mm.Layers[:len(mm.Layers)-1]
	}
	return json.NewEncoder(dstfile).Encode(mm)
}"""),
 'S7 startup prune keeps blobs whose name sorts first (leaves an unreferenced blob)': ('server/images.go', """	for _, blob := range blobs {
		name := blob.Name()
		name = strings.ReplaceAll(name, "-", ":")
""", """	for i, blob := range blobs {
		if i == 0 {
			continue
		}
		name := blob.Name()
		name = strings.ReplaceAll(name, "-", ":")
"""),
 'S8 delete canonicalises to another model with the same stem (deletes library/foo for ns1/foo)': ('server/routes.go', """		if !strings.EqualFold(e.Namespace, n.Namespace) {
			continue
		}
		n.Namespace = e.Namespace""", """		if !strings.EqualFold(e.Namespace, n.Namespace) && !strings.EqualFold(e.Model, n.Model) {
			continue
		}
		n.Namespace = e.Namespace"""),
 'S9 revert the missing return after a failed from': ('server/create.go', """				ch <- gin.H{"error": err.Error()}
				return
			}

			// pulling the base""", """				ch <- gin.H{"error": err.Error()}
			}

			// pulling the base"""),
}
only = sys.argv[1:]
for name,(f,old,new) in muts.items():
    if only and not any(name.startswith(o) for o in only): continue
    P=WT+'/'+f
    orig=open(P).read()
    assert old in orig, name
    open(P,'w').write(orig.replace(old,new,1))
    b=subprocess.run(['go','build','./server/'],cwd=WT,capture_output=True,text=True,env=dict(os.environ,GOFLAGS='-mod=mod'))
    r=subprocess.run(['./check','C04','--no-replays'],cwd='/verif',capture_output=True,text=True,env=dict(os.environ,VERIF_REPO=WT))
    first=[l for l in r.stdout.splitlines() if l.strip() and not l.startswith('C04') and not l.startswith('KNOWN')][:1]
    r2=subprocess.run(['./check','C04','--cases','1','--shards','1'],cwd='/verif',capture_output=True,text=True,env=dict(os.environ,VERIF_REPO=WT))
    print(name,'| build','ok' if b.returncode==0 else 'FAIL: '+b.stderr[:300],'| search exit',r.returncode, first[0].strip()[:200] if first else '', '| replays-only exit', r2.returncode, flush=True)
    open(P,'w').write(orig)
