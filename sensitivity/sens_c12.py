import subprocess, sys, os
WT='/tmp/wt-c12'
muts = {
 'S2 NewLayer writes straight to the digest name (no temp file + rename)': ('server/layer.go', """	status := "using existing layer"
	if _, err := os.Stat(blob); err != nil {
		status = "creating new layer"
		if err := os.Rename(temp.Name(), blob); err != nil {
			return Layer{}, err
		}""", """	status := "using existing layer"
	if _, err := os.Stat(blob); err != nil {
		status = "creating new layer"
		data, err := os.ReadFile(temp.Name())
		if err != nil {
			return Layer{}, err
		}
		out, err := os.Create(blob)
		if err != nil {
			return Layer{}, err
		}
		for len(data) > 0 {
			n := min(len(data), 100)
			out.Write(data[:n])
			data = data[n:]
		}
		out.Close()
		if false {
			return Layer{}, err
		}"""),
 'S3 delete removes the layers before the manifest': ('server/routes.go', """	if err := m.Remove(); err != nil {
		c.JSON(http.StatusInternalServerError, gin.H{"error": err.Error()})
		return
	}

	if err := m.RemoveLayers(); err != nil {
		c.JSON(http.StatusInternalServerError, gin.H{"error": err.Error()})
		return
	}""", """	for _, layer := range append(m.Layers, m.Config) {
		if layer.Digest != "" {
			if fp, err := GetBlobsPath(layer.Digest); err == nil {
				shared := false
				if ms, err := Manifests(true); err == nil {
					for n, o := range ms {
						if o.filepath == m.filepath {
							continue
						}
						_ = n
						for _, l := range append(o.Layers, o.Config) {
							if l.Digest == layer.Digest {
								shared = true
							}
						}
					}
				}
				if !shared {
					os.Remove(fp)
				}
			}
		}
	}
	if err := m.Remove(); err != nil {
		c.JSON(http.StatusInternalServerError, gin.H{"error": err.Error()})
		return
	}"""),
 'S1 pull writes the manifest before the layers are downloaded': ('server/images.go', """	for _, layer := range layers {
		// a blob is verified""", """	if fp0, err := mp.GetManifestPath(); err == nil {
		if b0, err := json.Marshal(manifest); err == nil {
			os.MkdirAll(filepath.Dir(fp0), 0o755)
			os.WriteFile(fp0, b0, 0o644)
		}
	}
	for _, layer := range layers {
		// a blob is verified"""),
 'S4 re-create removes the old layers before the new manifest is written': ('server/create.go', """		if err := createModel(r, name, baseLayers, fn); err != nil {""", """		if oldManifest != nil {
			for _, l := range append(oldManifest.Layers, oldManifest.Config) {
				if fp, err := GetBlobsPath(l.Digest); err == nil && l.MediaType != "application/vnd.ollama.image.model" {
					os.Remove(fp)
				}
			}
		}
		if err := createModel(r, name, baseLayers, fn); err != nil {"""),
 'S5 copy truncates the destination and writes it in two steps with the source layers missing in between (non-atomic is original; here dst written as valid JSON without layers first)': ('server/images.go', """	_, err = io.Copy(dstfile, srcfile)
	return err
}""", """	var mm Manifest
	if err := json.NewDecoder(srcfile).Decode(&mm); err != nil {
		return err
	}
	half := mm
	half.Layers = append([]Layer{{MediaType: "x", Digest: "sha256:" + strings.Repeat("0", 64), Size: 1}}, mm.Layers...)
	json.NewEncoder(dstfile).Encode(half)
	dstfile.Seek(0, 0)
	dstfile.Truncate(0)
	return json.NewEncoder(dstfile).Encode(mm)
}"""),
}
only = sys.argv[1:]
for name,(f,old,new) in muts.items():
    if only and not any(name.startswith(o) for o in only): continue
    P=WT+'/'+f
    orig=open(P).read()
    assert old in orig, name
    open(P,'w').write(orig.replace(old,new,1))
    b=subprocess.run(['go','build','./server/'],cwd=WT,capture_output=True,text=True,env=dict(os.environ,GOFLAGS='-mod=mod'))
    t=subprocess.run(['go','test','-mod=mod','-vet=off','-count=1','./server/'],cwd=WT,capture_output=True,text=True)
    r=subprocess.run(['./check','C12'],cwd='/verif',capture_output=True,text=True,env=dict(os.environ,VERIF_REPO=WT))
    first=[l for l in r.stdout.splitlines() if l.strip() and not l.startswith('C12') and not l.startswith('KNOWN')][:1]
    print(name[:70],'| build','ok' if b.returncode==0 else 'FAIL: '+b.stderr[:300],'| repo tests', 'ok' if t.returncode==0 else 'FAIL', '| exit',r.returncode, first[0].strip()[:260] if first else '', flush=True)
    open(P,'w').write(orig)
