import subprocess, sys, os
WT='/tmp/wt-sched'
P=WT+'/server/sched.go'
orig=open(P).read()
muts = {
 'S1 unload even when refCount>0 (drop requeue)': ("""			if runner.refCount > 0 {
				slog.Debug("expired event with positive ref count, retrying\"""", """			if false && runner.refCount > 0 {
				slog.Debug("expired event with positive ref count, retrying\""""),
 'S3 no refCount++ in useLoadedRunner': ("""	defer runner.refMu.Unlock()
	runner.refCount++
""","""	defer runner.refMu.Unlock()
"""),
 'S4 double decrement on failed load': ("""			runner.refCount--
			req.errCh <- err
""","""			runner.refCount--
			runner.refCount--
			req.errCh <- err
"""),
 'S5 no error reply on failed load': ("""			runner.refCount--
			req.errCh <- err
""","""			runner.refCount--
"""),
 'S6 no unloaded event': ("""			s.unloadedCh <- struct{}{}
		}
	}
}

// Complete the pending""","""		}
	}
}

// Complete the pending"""),
 'S7 never delete from loaded': ("""			if s.loaded[runner.modelPath] == runner {
				delete(s.loaded, runner.modelPath)
			}""","""			if false {
				delete(s.loaded, runner.modelPath)
			}"""),
 'S8 capacity test > instead of >=': ("loadedCount >= int(envconfig.MaxRunners())","loadedCount > int(envconfig.MaxRunners())"),
 'S9 needsReload ignores runner options': ("		!reflect.DeepEqual(optsExisting, optsNew) || // have the runner options changed?\n",""),
 'S10 evict first runner without idle scan': ("""	sort.Sort(ByDurationAndName(runnerList))

	// First try""","""	sort.Sort(ByDurationAndName(runnerList))
	return runnerList[len(runnerList)-1]

	// First try"""),
 'S11 skip updateFreeSpace': ("						s.updateFreeSpace(availGpus)\n",""),
 'S12 revert stale-expiry fix': ("""			if s.loaded[runner.modelPath] == runner {
				delete(s.loaded, runner.modelPath)
			}""","""			delete(s.loaded, runner.modelPath)"""),
 'S13 timer callback without refCount recheck... expire while busy (timer not stopped on reuse)': ("""	runner.refCount++
	if runner.expireTimer != nil {
		runner.expireTimer.Stop()
		runner.expireTimer = nil
	}
	if pending.sessionDuration != nil {""","""	runner.refCount++
	if pending.sessionDuration != nil {"""),
}
only = sys.argv[1:] 
for name,(old,new) in muts.items():
    if only and not any(name.startswith(o) for o in only): continue
    assert old in orig, name
    open(P,'w').write(orig.replace(old,new,1))
    b=subprocess.run(['go','build','./server/'],cwd=WT,capture_output=True,text=True,env=dict(os.environ,GOFLAGS='-mod=mod'))
    res=[]
    for cid in ['C01','C02','C11']:
        r=subprocess.run(['./check',cid],cwd='/verif',capture_output=True,text=True,env=dict(os.environ,VERIF_REPO=WT))
        first=[l for l in r.stdout.splitlines() if l.strip() and not l.startswith('C')][:1]
        res.append(f"{cid}:exit{r.returncode}" + (f" [{first[0].strip()[:150]}]" if r.returncode and first else ''))
    print(name, '| build', 'ok' if b.returncode==0 else 'FAIL', '|', ' ; '.join(res), flush=True)
open(P,'w').write(orig)
