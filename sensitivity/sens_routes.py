#!/usr/bin/env python3
"""Sensitivity of the route-level targets TestC01Routes / TestC02Routes (checks C01, C02).

    git -C /repo worktree add --detach /tmp/wt-routes HEAD
    python3 /verif/sensitivity/sens_routes.py [name-prefix ...]
    git -C /repo worktree remove --force /tmp/wt-routes

Applies one edit at a time to the scratch worktree and runs `VERIF_REPO=<worktree> ./check C01|C02 --target Test<ID>Routes
--no-replays` (generated search of the route-level target only, quick tier). Never run it while another ./check C01 / C02 runs.
"""
import os, subprocess, sys

WT = os.environ.get("SENS_WT", "/tmp/wt-routes")
VERIF = os.path.dirname(os.path.dirname(os.path.abspath(__file__)))
SEEDED = os.path.join(VERIF, "seeded", "C02-schedule-wait-returns-on-cancel", "patch.diff")
SEEDED2 = os.path.join(VERIF, "seeded", "C01-embed-schedules-on-errgroup-context", "patch.diff")

MUT = {
    "R10 seeded change C01-embed-schedules-on-errgroup-context (EmbedHandler schedules on an errgroup context)": "PATCH2",
    "R0 seeded change C02-schedule-wait-returns-on-cancel (scheduleRunner returns on ctx.Done)": "PATCH",
    "R1 scheduleRunner looks at errCh once, then waits on the runner channel only": ("server/routes.go", """	select {
	case runner = <-runnerCh:
	case err = <-errCh:
		return nil, nil, nil, err
	}
""", """	select {
	case err = <-errCh:
		return nil, nil, nil, err
	default:
	}
	runner = <-runnerCh
"""),
    "R2 GenerateHandler answers 'unload' without calling expireRunner": ("server/routes.go", """	if req.Prompt == "" && req.KeepAlive != nil && int(req.KeepAlive.Seconds()) == 0 {
		s.sched.expireRunner(m)
""", """	if req.Prompt == "" && req.KeepAlive != nil && int(req.KeepAlive.Seconds()) == 0 {
"""),
    "R3 handleScheduleError does not map ErrMaxQueue (500 instead of 503)": ("server/routes.go", """	case errors.Is(err, ErrMaxQueue):
		c.JSON(http.StatusServiceUnavailable, gin.H{"error": err.Error()})
""", ""),
    "R4 scheduleRunner schedules with a derived context that it cancels on return": ("server/routes.go", """	runnerCh, errCh := s.sched.GetRunner(ctx, model, opts, keepAlive)
""", """	ctx, cancel := context.WithCancel(ctx)
	defer cancel()
	runnerCh, errCh := s.sched.GetRunner(ctx, model, opts, keepAlive)
"""),
    "R5 useLoadedRunner does not take a reference (sched.go)": ("server/sched.go", """	runner.refCount++
	if runner.expireTimer != nil {
		runner.expireTimer.Stop()
		runner.expireTimer = nil
	}
	if pending.sessionDuration != nil {""", """	if runner.expireTimer != nil {
		runner.expireTimer.Stop()
		runner.expireTimer = nil
	}
	if pending.sessionDuration != nil {"""),
    "R6 scheduleRunner schedules with a context detached from the request": ("server/routes.go", """	runnerCh, errCh := s.sched.GetRunner(ctx, model, opts, keepAlive)
""", """	runnerCh, errCh := s.sched.GetRunner(context.WithoutCancel(ctx), model, opts, keepAlive)
"""),
    "R7 scheduleRunner does not check for a runner without server (revert of f8ca65cf6, routes.go part)": ("server/routes.go", """	if llama == nil {
		return nil, nil, nil, cmp.Or(ctx.Err(), context.Canceled)
	}
""", """	_ = cmp.Or[error]
"""),
    "R8 ChatHandler answers 'unload' without calling expireRunner": ("server/routes.go", """		s.sched.expireRunner(model)

		c.JSON(http.StatusOK, api.ChatResponse{""", """		_ = model

		c.JSON(http.StatusOK, api.ChatResponse{"""),
    "R9 useLoadedRunner hands out a runner that was unloaded in the meantime (revert of c3a6899ca)": ("server/sched.go", """	if runner.llama == nil {
		// needsReload released the lock before we got here and a pending
		// expiry event was processed in between
		return false
	}
""", ""),
}


def sh(cmd, **kw):
    return subprocess.run(cmd, shell=True, capture_output=True, text=True, **kw)


only = sys.argv[1:]
for name, m in MUT.items():
    if only and not any(name.startswith(o) for o in only):
        continue
    sh("git -C %s checkout -q -- ." % WT)
    if m in ("PATCH", "PATCH2"):
        r = sh("git -C %s apply %s" % (WT, SEEDED if m == "PATCH" else SEEDED2))
        assert r.returncode == 0, r.stderr
    else:
        f, old, new = m
        p = os.path.join(WT, f)
        s = open(p).read()
        assert s.count(old) == 1, (name, s.count(old))
        open(p, "w").write(s.replace(old, new))
    res = []
    for cid in ("C01", "C02"):
        r = sh("VERIF_REPO=%s ./check %s --target Test%sRoutes --no-replays" % (WT, cid, cid), cwd=VERIF)
        lines = [l.strip() for l in r.stdout.splitlines() if l.strip()]
        msg = ""
        for i, l in enumerate(lines):
            if l.startswith("VIOLATION") and i > 0:
                j = i - 1
                while j > 0 and not lines[j - 1].startswith(("VIOLATION", cid + " quick")):
                    j -= 1
                msg = lines[j]
                break
            if l.startswith("INCONCLUSIVE"):
                msg = l
                break
        res.append("%s:exit%d [%s] (%s)" % (cid, r.returncode, msg[:170], lines[0].split(": ", 1)[-1] if lines else ""))
    print("%s | %s" % (name, " ; ".join(res)), flush=True)
sh("git -C %s checkout -q -- ." % WT)
