import subprocess, sys, os
WT='/tmp/wt-c15'
muts = {
 'S1 PsHandler iterates the loaded map without loadedMu': ('server/routes.go', """	s.sched.loadedMu.Lock()
	defer s.sched.loadedMu.Unlock()

	for _, v := range s.sched.loaded {""", """	for _, v := range s.sched.loaded {"""),
 'S2 useLoadedRunner hands out a runner without checking that it is still loaded': ('server/sched.go', """	if runner.llama == nil {
		// needsReload released the lock before we got here and a pending
		// expiry event was processed in between
		return false
	}
""", ""),
 'S3 scheduleRunner reads runner.llama without the lock': ('server/routes.go', """	runner.refMu.Lock()
	llama := runner.llama
	runner.refMu.Unlock()
""", """	llama := runner.llama
"""),
 'S4 finished-request handler looks the runner up without loadedMu': ('server/sched.go', """		case finished := <-s.finishedReqCh:
			s.loadedMu.Lock()
			runner := s.loaded[finished.model.ModelPath]
			s.loadedMu.Unlock()""", """		case finished := <-s.finishedReqCh:
			runner := s.loaded[finished.model.ModelPath]"""),
 'S5 intermediate: ShowHandler caches the last shown model in a package variable': ('server/routes.go', """func (s *Server) ShowHandler(c *gin.Context) {
	var req api.ShowRequest""", """var lastShown string

func (s *Server) ShowHandler(c *gin.Context) {
	var req api.ShowRequest
	defer func() { lastShown = req.Model + lastShown[:min(len(lastShown), 8)] }()"""),
}
only = sys.argv[1:]
for name,(f,old,new) in muts.items():
    if only and not any(name.startswith(o) for o in only): continue
    P=WT+'/'+f
    orig=open(P).read()
    assert old in orig, name
    open(P,'w').write(orig.replace(old,new,1))
    b=subprocess.run(['go','build','./server/'],cwd=WT,capture_output=True,text=True,env=dict(os.environ,GOFLAGS='-mod=mod'))
    t=subprocess.run(['go','test','-mod=mod','-vet=off','-count=1','./server/'],cwd=WT,capture_output=True,text=True)
    r=subprocess.run(['./check','C15'],cwd='/verif',capture_output=True,text=True,env=dict(os.environ,VERIF_REPO=WT))
    first=[l for l in r.stdout.splitlines() if l.strip() and not l.startswith('C15') and not l.startswith('KNOWN')][:1]
    print(name[:80],'| build','ok' if b.returncode==0 else 'FAIL: '+b.stderr[:300],'| repo tests', 'ok' if t.returncode==0 else 'FAIL', '| exit',r.returncode, first[0].strip()[:240] if first else '', flush=True)
    open(P,'w').write(orig)
